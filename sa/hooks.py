"""Hook gating / typestate facts shared by C15 and C16."""
from __future__ import annotations

import ast

from .model import walk_own, dotted, is_self_attr, strip_doc, AnalysisError
from . import boolpath


def _contains_call(st, pred):
    return any(isinstance(c, ast.Call) and pred(c) for c in ast.walk(st)) if not isinstance(st, ast.If) else False


def gating(ctx, rule):
    """Hook gating is (trainexec & training) | (evalexec & ~training) in the three wrappers."""
    P = ctx.prog
    hook = P.cls("Hook")
    n = 0
    for mname, callee in (("__wrapped_prehook", "_prehook_call"), ("__wrapped_posthook", "_posthook_call")):
        f = hook.methods.get(mname)
        if f is None:
            raise AnalysisError(f"anchor vanished: Hook.{mname}")
        ctx.touch(f)
        atoms = {"self.trainexec": "T", "self.evalexec": "E", "module.training": "M"}
        target = lambda st, callee=callee: _contains_call(st, lambda c: dotted(c.func) == f"self.{callee}")
        try:
            names, tb = boolpath.table(strip_doc(f.node.body), atoms, target)
        except boolpath.Undecided as e:
            ctx.ob(rule, f"Hook.{mname} gating", False, f"gating test `{e}` is not over (trainexec, evalexec, module.training)", f.where)
            continue
        bad = []
        for vals, got in tb.items():
            a = dict(zip(names, vals))
            want = (a["T"] and a["M"]) or (a["E"] and not a["M"])
            if got != want:
                bad.append(f"trainexec={a['T']}, evalexec={a['E']}, module.training={a['M']}: runs={got}, expected {want}")
        n += 1
        ctx.ob(rule, f"Hook.{mname} gating", not bad,
               "hook body runs iff (trainexec and module.training) or (evalexec and not module.training) — all 8 assignments" if not bad else "; ".join(bad),
               f.where)
        # the wrapped call forwards to the right callable and passes module
        fw = [c for c in P.calls_in(f) if dotted(c.func) == f"self.{callee}"]
        ok = bool(fw) and all(c.args and isinstance(c.args[0], ast.Name) and c.args[0].id == "module" for c in fw)
        ctx.ob(rule, f"Hook.{mname} forwards to {callee}(module, ...)", ok, "", f.where)
    sh = P.cls("StateHook")
    f = sh.methods.get("forward")
    if f is None:
        raise AnalysisError("anchor vanished: StateHook.forward")
    ctx.touch(f)
    atoms = {"self.trainexec": "T", "self.evalexec": "E", "self.module.training": "M", "self.registered": "R", "force": "F", "ignore_mode": "I"}
    target = lambda st: _contains_call(st, lambda c: dotted(c.func) == "self.hook")
    try:
        names, tb = boolpath.table(strip_doc(f.node.body), atoms, target)
        bad = []
        for vals, got in tb.items():
            a = dict(zip(names, vals))
            want = (a["R"] or a["F"]) and (a["I"] or (a["T"] and a["M"]) or (a["E"] and not a["M"]))
            if got != want:
                bad.append(f"{a}: runs={got}, expected {want}")
        ctx.ob(rule, "StateHook.forward manual trigger gating", not bad,
               "runs iff (registered or force) and (ignore_mode or mode-enabled) — all 64 assignments" if not bad else "; ".join(bad[:4]), f.where)
    except boolpath.Undecided as e:
        ctx.ob(rule, "StateHook.forward manual trigger gating", False, f"test `{e}` outside the expected atoms", f.where)
    # property getters of trainexec / evalexec return the constructor flags
    init = hook.methods["__init__"]
    for pname, param in (("trainexec", "train_update"), ("evalexec", "eval_update")):
        g = hook.props.get(pname, {}).get("get")
        if g is None:
            raise AnalysisError(f"anchor vanished: Hook.{pname}")
        from .grules import getter_field
        fld = getter_field(g)
        st = [s for s in walk_own(init.node) if isinstance(s, ast.Assign) and is_self_attr(s.targets[0], fld or "?")
              and isinstance(s.value, ast.Name) and s.value.id == param]
        ctx.ob(rule, f"Hook.{pname} reports the constructor flag {param}", bool(st), "", g.where)
    return n
