"""Sibling template of the tensor-like constructors of inferno/core/tensor.py (zeros, ones, empty, full, fullc, uniform,
normal): every keyword defaults to the reference tensor's own attribute and is passed on under its own name; `fullc`
differs only by its documented dtype rule (floating / complex dtypes are kept, any other dtype becomes the default
float type).  Used by the properties whose mechanisms are built on these helpers."""
from __future__ import annotations

from .model import AnalysisError
from . import specs

_TORCH = {"zeros": "zeros", "ones": "ones", "empty": "empty", "full": "full", "fullc": "full", "uniform": "rand", "normal": "randn"}


def _spec(name: str) -> str:
    value = name in ("full", "fullc")
    gen = name in ("uniform", "normal")
    sig = "tensor, " + ("value, " if value else "") + "*, shape=None, dtype=None, layout=None, device=None, requires_grad=None" + (", generator=None" if gen else "")
    dtype = ("((tensor.dtype if tensor.is_floating_point() or tensor.is_complex() else torch.get_default_dtype()) if dtype is None else dtype)"
             if name == "fullc" else "(tensor.dtype if dtype is None else dtype)")
    extra = ("fill_value=value, " if value else "") + ("generator=generator, " if gen else "")
    return f"""
def spec({sig}):
    shape = tensor.shape if shape is None else shape
    dtype = {dtype}
    layout = tensor.layout if layout is None else layout
    device = tensor.device if device is None else device
    requires_grad = tensor.requires_grad if requires_grad is None else requires_grad
    return torch.{_TORCH[name]}(shape, {extra}dtype=dtype, layout=layout, device=device, requires_grad=requires_grad)
"""


def check(ctx, rule: str, names):
    for name in names:
        f = ctx.prog.fn(name, module="core.tensor")
        if f is None:
            raise AnalysisError(f"anchor vanished: inferno.core.tensor.{name}")
        what = ("like the reference tensor except where a keyword is given; dtype: floating / complex kept, otherwise the default float type"
                if name == "fullc" else "like the reference tensor except where a keyword is given")
        specs.compare_full(ctx, rule, f"core.tensor.{name}: {what}", f, _spec(name), source="helper docstring / sibling template", inline_depth=0)
