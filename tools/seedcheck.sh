#!/bin/sh
# usage: tools/seedcheck.sh <Cxx> <variant> [notests]   -- confirm a seeded change and run the checks against it
ID=$1; V=$2; SRC=/tmp/seed_out/$ID/$V; WT=/tmp/sc_${ID}_$V; OUT=/tmp/seed_out/$ID/$V/confirm.txt
[ -f $SRC/patch.diff ] || { echo "no patch"; exit 2; }
: > $OUT
git -C /repo worktree add -q --detach $WT HEAD || exit 2
( cd $WT && git apply $SRC/patch.diff ) || { echo "patch does not apply" | tee -a $OUT; git -C /repo worktree remove --force $WT; exit 2; }
( cd $WT && PYTHONPATH=$WT /venv/bin/python $SRC/demo.py >/tmp/sc_demo_mod_$ID$V.txt 2>&1 ); echo "demo_modified_rc=$?" >> $OUT
if [ "$3" != "notests" ]; then
  ( cd $WT && /venv/bin/python -m pytest -q -p no:cacheprovider -n 6 -rf 2>&1 | grep "^FAILED\|passed\|failed" | cut -c1-200 ) >> $OUT
fi
( cd $WT && git checkout -q -- . && PYTHONPATH=$WT /venv/bin/python $SRC/demo.py >/tmp/sc_demo_clean_$ID$V.txt 2>&1 ); echo "demo_clean_rc=$?" >> $OUT
git -C /repo worktree remove --force $WT
# checks against the change applied to /repo itself
git -C /repo apply $SRC/patch.diff || { echo "apply to /repo failed" >> $OUT; exit 2; }
for p in $(seq -w 1 20); do
  r=$(cd /verif && ./check C$p --no-evidence 2>/dev/null | grep -c '^VIOLATION'); [ "$r" != "0" ] && echo "FIRES C$p" >> $OUT
done
( cd /verif && ./check $ID --no-evidence 2>/dev/null | grep '^  \[' | cut -c1-300 ) >> $OUT
git -C /repo checkout -q -- .
cat $OUT
