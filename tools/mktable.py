"""Write the starting point of a decision-table file sa/tables/<Class>.<method>.py from /repo's current source
(docstring and decorators stripped, function renamed `spec`).  Development aid: the file is then reviewed against the
method's documentation and committed; the checks never regenerate it.
usage: python3 -I tools/mktable.py <module suffix> <Class|-> <function> ..."""
import ast, os, sys
VERIF = os.path.dirname(os.path.dirname(os.path.abspath(__file__)))
mod, cls, names = sys.argv[1], sys.argv[2], sys.argv[3:]
path = os.path.join("/repo/inferno", mod.replace(".", "/") + ".py")
tree = ast.parse(open(path).read())
scope = tree.body
if cls != "-":
    scope = next(n for n in ast.walk(tree) if isinstance(n, ast.ClassDef) and n.name == cls).body
for name in names:
    want, kind = (name.split(":") + ["plain"])[:2]
    for n in scope:
        if isinstance(n, ast.FunctionDef) and n.name == want:
            decs = [ast.unparse(d) for d in n.decorator_list]
            k = "setter" if any(d.endswith(".setter") for d in decs) else ("deleter" if any(d.endswith(".deleter") for d in decs) else ("getter" if "property" in decs else "plain"))
            if kind != k and not (kind == "plain" and k == "plain"):
                continue
            if n.body and isinstance(n.body[0], ast.Expr) and isinstance(n.body[0].value, ast.Constant):
                n.body = n.body[1:]
            n.decorator_list = []
            n.returns = None
            for a in n.args.posonlyargs + n.args.args + n.args.kwonlyargs:
                a.annotation = None
            n.name = "spec"
            out = os.path.join(VERIF, "sa", "tables", f"{cls + '.' if cls != '-' else ''}{want}{'' if kind == 'plain' else '.' + kind}.py")
            open(out, "w").write(ast.unparse(n) + "\n")
            print("wrote", out)
