"""Generate starting-point decision tables for the mechanism functions of each property (development aid; the files are
reviewed and committed, the checks never regenerate them) and write sa/tables/registry.py.
A function is kept only if the term builder can summarise it and the summary equals its own table."""
import ast, os, sys, json
VERIF = os.path.dirname(os.path.dirname(os.path.abspath(__file__)))
sys.path.insert(0, VERIF)
from sa.model import Program, strip_doc
from sa import terms, nf, specs
from sa.tables import OPTS

# property -> [(module suffix, class or None, names or None (= every non-stub function / method))]
PLAN = {
    "C11": [("core.tensor", None, None), ("functional.dimreductiion", None, None)],
    "C13": [("core.infrastructure", "VirtualTensor", None), ("core.infrastructure", "ShapedTensor", None), ("core.infrastructure", "RecordTensor", ["dt:setter", "duration:setter", "inclusive:setter", "reconstrain", "constraints:getter", "recordsz:getter"])],
    "C01": [("core.infrastructure", "RecordTensor", None), ("core.infrastructure", None, ["_unwind_ptr", "_unwind_tensor_ptr"])],
    "C03": [("neural.neurons.linear", c, None) for c in ("LIF", "ALIF", "GLIF1", "GLIF2")] +
           [("neural.neurons.nonlinear", c, None) for c in ("QIF", "Izhikevich", "EIF", "AdEx")] +
           [("neural.neurons.mixins", c, None) for c in ("VoltageMixin", "RefractoryMixin", "SpikeRefractoryMixin", "AdaptiveCurrentMixin", "AdaptiveThresholdMixin")] +
           [("neural.functional.neuron_dynamics", None, None), ("neural.functional.neuron_adaptation", None, None)],
    "C04": [("neural.synapses.current", c, None) for c in ("DeltaCurrent", "DeltaPlusCurrent")] +
           [("neural.synapses.expcurrent", c, None) for c in ("SingleExponentialCurrent", "DoubleExponentialCurrent")] +
           [("neural.synapses.mixins", c, None) for c in ("CurrentMixin", "SpikeMixin", "SpikeCurrentMixin", "CurrentDerivedSpikeMixin", "SpikeDerivedCurrentMixin")],
    "C05": [("neural.connections.linear", c, None) for c in ("LinearDense", "LinearDirect", "LinearLateral")] + [("neural.connections.conv", "Conv2D", None)] +
           [("neural.connections.mixins", None, None)],
    "C06": [("neural.base", "Connection", None), ("neural.base", "InfernoSynapse", None)],
    "C07": [("observe.reducers.base", c, None) for c in ("RecordReducer", "FoldReducer")] +
           [("observe.reducers.trace", None, None), ("observe.reducers.stats", None, None), ("observe.reducers.general", None, None), ("core.trace", None, None)],
    "C08": [("learn.trainers.two_factor_stdp", None, None), ("learn.trainers.three_factor_stdp", None, None)],
    "C09": [("learn.trainers.homeostasis", None, None)],
    "C10": [("neural.modeling", None, None), ("functional.bounding", None, None)],
    "C12": [("core.infrastructure", "Module", None), ("learn.classifiers.simple", None, None)],
    "C14": [("neural.mixins", None, None), ("neural.base", "InfernoNeuron", None)],
    "C15": [("observe.pooling", None, None), ("learn.base", None, None), ("observe.monitors", None, None)],
    "C16": [("core.infrastructure", c, None) for c in ("Hook", "ContextualHook", "StateHook")] + [("neural.hooks", None, None), ("_internal.utils", None, ["rgetattr", "rsetattr"])],
    "C17": [("neural.network", None, None)],
    "C18": [("learn.trainers.delay_adj_two_factor_stdp", None, None), ("learn.trainers.delay_adj_three_factor_stdp", None, None), ("learn.trainers.kernel_stdp", None, None), ("functional.stdkernels", None, None)],
    "C19": [("neural.functional.encoding", None, None), ("neural.encoders.poisson", None, None), ("neural.encoders.special", None, None), ("neural.encoders.mixins", None, None)],
    "C20": [("stats.distributions", None, None), ("functional.interpolation", None, None), ("functional.extrapolation", None, None), ("core.math", None, None)],
}
SKIP_NAMES = {"__repr__", "extra_repr", "__str__", "_"}
# curation (kept here so that a regeneration reproduces the committed registry):
EXCLUDE = {("Updater", "forward"): "C10.c accepts any value-equivalent write-back",
           ("TripletSTDP", "forward"): "summary takes > 5 s; covered by C08.a-c",
           ("StableTripletSTDP", "forward"): "summary takes > 5 s; covered by C08.a-c",
           ("LinearHomeostasis", "forward"): "behind known finding D24: a table would report its repair",
           ("SpikeRefractoryMixin", "spike"): "behind known finding D25",
           ("Observable", "add_monitor"): "behind known finding D19",
           ("MonitorPool", "del_observed"): "decided by C15.e (a shared monitor is released only by its last holder); the release test can be written in several equivalent ways (set of ids before the deletion, scan after it) that a summary comparison cannot identify",
           ("MonitorPool", "del_monitor"): "as del_observed",
           (None, "poisson_interval"): "decided by the clauses C19.a/b/d; its vectorised masking / collision handling can be written in forms (indexed update, where, logical masks) that a summary comparison cannot identify"}
MOVE = {("Conv2D", "selector"): "C06", ("LinearDense", "selector"): "C06", ("LinearDirect", "selector"): "C06", ("LinearLateral", "selector"): "C06",
        (None, "normalize"): "C16", ("RecordTensor", "select"): "C02", ("RecordTensor", "insert"): "C02",
        # core.tensor helpers go to the property whose mechanism is built on them
        (None, "fullc"): "C02", (None, "zeros"): "C13", (None, "ones"): "C13", (None, "empty"): "C13", (None, "full"): "C13",
        (None, "uniform"): "C19", (None, "normal"): "C19", (None, "scalar"): "C20", (None, "astensors"): "C20"}

import signal


def _alarm(sig, frm):
    raise KeyboardInterrupt("summary took more than 120 s")


signal.signal(signal.SIGALRM, _alarm)
P = Program("/repo")
reg, dropped = {}, []
tdir = os.path.join(VERIF, "sa", "tables")
existing_manual = set()
seen_funcs = set()


def kind_of(f):
    return {"getter": "getter", "setter": "setter", "deleter": "deleter"}.get(f.kind, "plain")


def is_stub(node):
    body = strip_doc(node.body)
    return not body or all(isinstance(s, (ast.Pass, ast.Raise)) or (isinstance(s, ast.Expr) and isinstance(s.value, ast.Constant)) for s in body)


for prop, plan in PLAN.items():
    for modsuf, cname, names in plan:
        funcs = [f for f in P.funcs if f.module.name == "inferno." + modsuf and ((f.cls.name if f.cls else None) == cname if cname else True)
                 and getattr(f, "parent", None) is None]
        for f in funcs:
            if f.name in SKIP_NAMES or is_stub(f.node) or any("abstractmethod" in ast.unparse(d) or "overload" in ast.unparse(d) for d in f.node.decorator_list):
                continue
            k = kind_of(f)
            tag = f.name if k == "plain" else f"{f.name}:{k}"
            if names is not None and tag not in names:
                continue
            # nested functions are not top-level entries
            if f.cls is None and f.node not in f.module.tree.body:
                continue
            if f.cls is not None and f.node not in f.cls.node.body:
                continue
            cn = f.cls.name if f.cls else None
            if (cn, f.name) in EXCLUDE:
                continue
            base = f"{cn + '.' if cn else ''}{f.name}{'' if k == 'plain' else '.' + k}"
            if base in existing_manual or (modsuf, cn, f.name, k) in seen_funcs:
                continue
            seen_funcs.add((modsuf, cn, f.name, k))
            node = ast.parse(ast.unparse(f.node)).body[0]
            if node.body and isinstance(node.body[0], ast.Expr) and isinstance(node.body[0].value, ast.Constant):
                node.body = node.body[1:]
            node.returns, node.name = None, "spec"
            for a in node.args.posonlyargs + node.args.args + node.args.kwonlyargs:
                a.annotation = None
            if node.args.vararg:
                node.args.vararg.annotation = None
            if node.args.kwarg:
                node.args.kwarg.annotation = None
            src = ast.unparse(node) + "\n"
            try:
                signal.alarm(120)
                terms.function_term(P, f, None, **OPTS)      # raises Opaque when the function is outside the fragment
                ok = specs.equivalent(P, f, src, **OPTS)
                signal.alarm(0)
            except (Exception, KeyboardInterrupt) as e:
                signal.alarm(0)
                ok = False
                dropped.append((prop, base, f"{type(e).__name__}: {e}"[:80]))
                print("dropped", base, type(e).__name__, flush=True)
                continue
            if not ok:
                dropped.append((prop, base, "summary does not equal its own table (engine limit)"))
                continue
            fn = os.path.join(tdir, base + ".py")
            if os.path.exists(fn) and open(fn).read() != src:
                # same short name in two modules: disambiguate by module
                base = f"{modsuf.split('.')[-1]}__{base}"
                fn = os.path.join(tdir, base + ".py")
            open(fn, "w").write(src)
            reg.setdefault(MOVE.get((cn, f.name), prop), []).append((cn, f.name, k, modsuf, os.path.basename(fn)))
with open(os.path.join(tdir, "registry.py"), "w") as fh:
    fh.write('"""Which functions have a decision table, per property (generated by tools/mktables_bulk.py, whose EXCLUDE / MOVE tables hold the\nhand curation: entries moved to the property whose statement the function serves, dropped where a clause deliberately accepts\nseveral equivalent forms, and never tabled for the functions behind the recorded known findings D19, D24, D25)."""\n')
    fh.write("REG = " + json.dumps(reg, indent=1).replace("null", "None") + "\n")
print({k: len(v) for k, v in reg.items()}, "total", sum(len(v) for v in reg.values()))
print("dropped", len(dropped))
for d in dropped:
    print("  ", d)
