"""Apply one whole-tree behaviour-preserving transform of sa/selftest.py to a scratch copy and print every report of every
check in full (development aid).  usage: python3 -I tools/benign_tree.py <transform> [Cxx ...]"""
import os, shutil, subprocess, sys, tempfile
VERIF = os.path.dirname(os.path.dirname(os.path.abspath(__file__)))
sys.path.insert(0, VERIF)
from sa import selftest as S
tr = sys.argv[1]
props = sys.argv[2:] or S.PROPS
tmp = tempfile.mkdtemp(prefix="sa_benign_")
try:
    S.make_copy("/repo", tmp)
    v = {"transform": tr, "suffix": "_r"}
    err = S.apply_edit(tmp, v)
    assert not err, err
    for p in props:
        rc, out = S.run_check(p, tmp)
        if rc != 0:
            print(f"==== {p} rc={rc}")
            print("\n".join(l[:600] for l in out.splitlines() if l.startswith("  [") or "ERROR" in l))
finally:
    shutil.rmtree(tmp, ignore_errors=True)
