"""Soundness probe of "reading modulo equivalence" (development aid): every function that has a decision table is mutated
one syntactic change at a time (same mutation operators as tools/mutsweep.py, validation lines included) and the strict
summary equivalence that licenses replacing a function by its table is asked about each mutant.  A mutant *proved
equivalent* is either a genuinely equivalent change or a hole in the summary abstraction; the list is triaged by hand.
usage: python3 -I tools/mutequiv.py [-j 12] [--limit N] [--only substring]"""
from __future__ import annotations
import argparse, ast, concurrent.futures as cf, os, shutil, sys, tempfile
VERIF = os.path.dirname(os.path.dirname(os.path.abspath(__file__)))
sys.path.insert(0, VERIF)
sys.path.insert(0, os.path.join(VERIF, "tools"))
import mutsweep as M

_TMP = None


def _init(root):
    global _TMP
    _TMP = tempfile.mkdtemp(prefix="sa_meq_")
    shutil.copytree(os.path.join(root, "inferno"), os.path.join(_TMP, "inferno"), ignore=shutil.ignore_patterns("__pycache__"))
    import atexit
    atexit.register(shutil.rmtree, _TMP, True)


def _run(job):
    rel, src, orig, desc, entry = job
    from sa.model import Program
    from sa import tables, specs
    p = os.path.join(_TMP, rel)
    try:
        open(p, "w").write(src)
        try:
            P = Program(_TMP)
            cname, fname, kind, module, filename = entry
            f = tables._locate(P, cname, fname, kind, module)
            if f is None:
                return (rel, desc, entry[4], "gone")
            tsrc = open(os.path.join(tables.HERE, filename)).read()
            if tables._table_text(f.node) == tsrc:
                return (rel, desc, entry[4], "identical-after-normalisation")
            eq = specs.equivalent(P, f, tsrc, **dict(tables.OPTS, erase_persistence=False, erase_validation=False, erase_casts=False))
            return (rel, desc, entry[4], "EQUIVALENT" if eq else "different")
        except Exception as e:
            return (rel, desc, entry[4], f"error {type(e).__name__}")
    finally:
        open(p, "w").write(orig)


def main():
    ap = argparse.ArgumentParser()
    ap.add_argument("-j", type=int, default=12)
    ap.add_argument("--limit", type=int, default=0)
    ap.add_argument("--only", default="")
    ap.add_argument("--out", default="/tmp/mutequiv.txt")
    a = ap.parse_args()
    from sa.tables.registry import REG
    entries = {}
    for pid, ents in REG.items():
        for e in ents:
            entries[(e[3], e[0], e[1], e[2])] = tuple(e)
    jobs = []
    for dp, _, fs in os.walk("/repo/inferno"):
        for fn in fs:
            if not fn.endswith(".py"):
                continue
            path = os.path.join(dp, fn)
            rel = os.path.relpath(path, "/repo")
            module = rel[len("inferno/"):-3].replace("/", ".")
            base = ast.unparse(ast.parse(open(path).read())) + "\n"
            tree = ast.parse(base)
            for node in ast.walk(tree):
                if not isinstance(node, ast.ClassDef) and node is not tree:
                    continue
                cname = node.name if isinstance(node, ast.ClassDef) else None
                for fdef in node.body:
                    if not isinstance(fdef, ast.FunctionDef):
                        continue
                    kind = "plain"
                    for d in fdef.decorator_list:
                        u = ast.unparse(d)
                        kind = "setter" if u.endswith(".setter") else "deleter" if u.endswith(".deleter") else "getter" if u == "property" else kind
                    ent = entries.get((module, cname, fdef.name, kind))
                    if ent is None or (a.only and a.only not in (f"{cname}.{fdef.name}")):
                        continue
                    seen = set()
                    for desc, m in M.mutants_of(fdef):
                        u = M.apply(m)
                        try:
                            src = ast.unparse(tree) + "\n"
                        except Exception:
                            M.undo(u)
                            continue
                        M.undo(u)
                        if src == base or src in seen:
                            continue
                        seen.add(src)
                        try:
                            ast.parse(src)
                        except SyntaxError:
                            continue
                        jobs.append((rel, src, base, f"{cname + '.' if cname else ''}{fdef.name} {desc}", ent))
    if a.limit:
        import random
        random.Random(1).shuffle(jobs)
        jobs = jobs[:a.limit]
    print(len(jobs), "mutants of tabled functions", flush=True)
    res = []
    with cf.ProcessPoolExecutor(max_workers=a.j, initializer=_init, initargs=("/repo",)) as ex:
        for r in ex.map(_run, jobs, chunksize=4):
            res.append(r)
    from collections import Counter
    print(Counter(r[3].split()[0] for r in res))
    with open(a.out, "w") as f:
        for r in sorted(res):
            if r[3] != "different":
                f.write(f"{r[3]} | {r[0]} | {r[1]}\n")
    print("written", a.out)


if __name__ == "__main__":
    main()
