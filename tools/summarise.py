import json,glob
print("| prop | obligations (quick) | clause rules: instances | functions analysed | known findings |")
print("|---|---|---|---|---|")
for f in sorted(glob.glob('/verif/evidence/C??.json')):
    e=json.load(open(f)); c=e['coverage']
    rules=", ".join(f"{k} {v['instances']}" for k,v in sorted(c['per_rule'].items()) if not k.endswith('/count'))
    print(f"| {e['property_id']} | {c['obligations']} | {rules} | {c['n_functions_analysed']} | {len(c['known_findings_matched'])} |")
