"""Mutation sweep of the *checker* (development aid, not a registered check; DESIGN 7.2).

For one property, every function the check lists as analysed (evidence/<id>.json: functions_analysed) is mutated one
syntactic change at a time on a scratch copy of /repo/inferno (mktemp, removed afterwards) and the property's quick check is
run on the copy through --root.  Nothing of /repo is executed.  The output lists the mutants the check did NOT report
("survivors"), to be triaged by hand: a survivor is either an equivalent / out-of-scope change (validation, messages,
documented non-goals) or a gap in the check.

usage: python3 -I tools/mutsweep.py Cxx[,Cyy...]|ALL [-j 14] [--limit N] [--out FILE]
With several properties a function is mutated once and the checks of every property that lists it as analysed are run;
the mutant counts as reported when any of them fires.
"""
from __future__ import annotations

import argparse
import ast
import concurrent.futures as cf
import copy
import json
import os
import shutil
import subprocess
import sys
import tempfile

VERIF = os.path.dirname(os.path.dirname(os.path.abspath(__file__)))
PY = "/venv/bin/python" if os.path.exists("/venv/bin/python") else sys.executable

CMP = {ast.Lt: ast.LtE, ast.LtE: ast.Lt, ast.Gt: ast.GtE, ast.GtE: ast.Gt, ast.Eq: ast.NotEq, ast.NotEq: ast.Eq,
       ast.Is: ast.IsNot, ast.IsNot: ast.Is}
BIN = {ast.Add: ast.Sub, ast.Sub: ast.Add, ast.Mult: ast.Div, ast.Div: ast.Mult, ast.FloorDiv: ast.Div, ast.Mod: ast.FloorDiv}
NAMESWAP = {"ceil": "floor", "floor": "ceil", "min": "max", "max": "min", "amin": "amax", "amax": "amin", "sum": "mean",
            "clamp_min": "clamp_max", "clamp_max": "clamp_min", "logical_and": "logical_or", "logical_or": "logical_and",
            "pre": "post", "post": "pre", "pos": "neg", "neg": "pos", "exp": "log", "any": "all", "all": "any",
            "ones_like": "zeros_like", "zeros_like": "ones_like", "ones": "zeros", "zeros": "ones",
            "unsqueeze": "squeeze", "ge": "gt", "gt": "ge", "le": "lt", "lt": "le"}


def qualnames(tree):
    """FunctionDef -> name as the checks record it (Class.meth, Class.prop.setter, func)."""
    out = {}

    def visit(body, prefix):
        for n in body:
            if isinstance(n, ast.ClassDef):
                visit(n.body, n.name + ".")
            elif isinstance(n, (ast.FunctionDef, ast.AsyncFunctionDef)):
                q = prefix + n.name
                for d in n.decorator_list:
                    if isinstance(d, ast.Attribute) and d.attr in ("setter", "deleter"):
                        q += "." + d.attr
                out[n] = q
    visit(tree.body, "")
    return out


def is_doc(stmt):
    return isinstance(stmt, ast.Expr) and isinstance(stmt.value, ast.Constant) and isinstance(stmt.value.value, str)


def mutants_of(fn):
    """Yield (description, apply, undo) closures mutating `fn` in place."""
    skip = set()
    for n in ast.walk(fn):
        if isinstance(n, ast.Raise) or isinstance(n, ast.Assert):
            for x in ast.walk(n):
                skip.add(id(x))
        if isinstance(n, ast.Call) and isinstance(n.func, ast.Attribute) and n.func.attr in ("warn",):
            for x in ast.walk(n):
                skip.add(id(x))
    for n in ast.walk(fn):
        if id(n) in skip:
            continue
        ln = getattr(n, "lineno", 0)
        if isinstance(n, ast.Compare):
            for i, op in enumerate(n.ops):
                if type(op) in CMP:
                    new = CMP[type(op)]()
                    yield (f"L{ln}: compare {type(op).__name__}->{type(new).__name__}", (n.ops, i, new))
        elif isinstance(n, ast.BinOp) and type(n.op) in BIN:
            yield (f"L{ln}: binop {type(n.op).__name__}->{BIN[type(n.op)].__name__}", (n, "op", BIN[type(n.op)]()))
        elif isinstance(n, ast.BoolOp):
            new = ast.Or() if isinstance(n.op, ast.And) else ast.And()
            yield (f"L{ln}: boolop {type(n.op).__name__}->{type(new).__name__}", (n, "op", new))
        elif isinstance(n, ast.UnaryOp) and isinstance(n.op, (ast.Not, ast.Invert, ast.USub)):
            yield (f"L{ln}: drop unary {type(n.op).__name__}", ("replace", n, n.operand))
        elif isinstance(n, ast.Constant) and not isinstance(n.value, str) and n.value is not None and n.value is not Ellipsis:
            if isinstance(n.value, bool):
                yield (f"L{ln}: const {n.value}->{not n.value}", (n, "value", not n.value))
            elif isinstance(n.value, int):
                yield (f"L{ln}: const {n.value}->{n.value + 1}", (n, "value", n.value + 1))
                if n.value != 0:
                    yield (f"L{ln}: const {n.value}->{n.value - 1}", (n, "value", n.value - 1))
            elif isinstance(n.value, float):
                yield (f"L{ln}: const {n.value}->{n.value * 2 + 1}", (n, "value", n.value * 2 + 1))
        elif isinstance(n, ast.Attribute) and n.attr in NAMESWAP and isinstance(n.ctx, ast.Load):
            yield (f"L{ln}: attr .{n.attr}->.{NAMESWAP[n.attr]}", (n, "attr", NAMESWAP[n.attr]))
        elif isinstance(n, ast.Name) and n.id in NAMESWAP and isinstance(n.ctx, ast.Load) and n.id in ("min", "max", "any", "all", "sum"):
            yield (f"L{ln}: name {n.id}->{NAMESWAP[n.id]}", (n, "id", NAMESWAP[n.id]))
        elif isinstance(n, ast.Call):
            if len(n.args) >= 2 and not any(isinstance(a, ast.Starred) for a in n.args[:2]):
                if ast.dump(n.args[0]) != ast.dump(n.args[1]):
                    yield (f"L{ln}: swap first two args of {ast.unparse(n.func)[:40]}", ("swapargs", n))
            for k in n.keywords:
                if k.arg and isinstance(k.value, ast.Constant) and isinstance(k.value.value, bool):
                    pass  # covered by const flip
        if isinstance(n, ast.If):
            yield (f"L{ln}: negate if-test", ("negate", n))
        # statement deletion
        for field in ("body", "orelse"):
            blk = getattr(n, field, None)
            if isinstance(blk, list) and blk and isinstance(blk[0], ast.stmt):
                for i, st in enumerate(blk):
                    if id(st) in skip or is_doc(st):
                        continue
                    if isinstance(st, (ast.Expr, ast.Assign, ast.AugAssign, ast.AnnAssign)) or \
                            (isinstance(st, (ast.If, ast.With, ast.For)) and not isinstance(n, ast.Module)):
                        if isinstance(st, ast.Expr) and isinstance(st.value, ast.Call) and isinstance(st.value.func, ast.Name) and st.value.func.id in ("print",):
                            continue
                        yield (f"L{st.lineno}: delete {type(st).__name__} `{ast.unparse(st).splitlines()[0][:60]}`", ("delete", blk, i))


def apply(m):
    kind = m[0]
    if kind == "replace":
        _, node, new = m
        saved = copy.copy(node.__dict__)
        node_cls = node.__class__
        node.__class__ = new.__class__
        node.__dict__.clear()
        node.__dict__.update(new.__dict__)
        return ("replace", node, node_cls, saved)
    if kind == "swapargs":
        n = m[1]
        n.args[0], n.args[1] = n.args[1], n.args[0]
        return ("swapargs", n)
    if kind == "negate":
        n = m[1]
        old = n.test
        n.test = ast.UnaryOp(op=ast.Not(), operand=old)
        return ("negate", n, old)
    if kind == "delete":
        _, blk, i = m
        st = blk[i]
        blk[i] = ast.Pass()
        return ("delete", blk, i, st)
    if isinstance(kind, list):
        lst, i, new = m
        old = lst[i]
        lst[i] = new
        return ("list", lst, i, old)
    node, field, new = m
    old = getattr(node, field)
    setattr(node, field, new)
    return ("field", node, field, old)


def undo(u):
    k = u[0]
    if k == "replace":
        _, node, cls, saved = u
        node.__class__ = cls
        node.__dict__.clear()
        node.__dict__.update(saved)
    elif k == "swapargs":
        n = u[1]
        n.args[0], n.args[1] = n.args[1], n.args[0]
    elif k == "negate":
        u[1].test = u[2]
    elif k == "delete":
        u[1][u[2]] = u[3]
    elif k == "list":
        u[1][u[2]] = u[3]
    else:
        setattr(u[1], u[2], u[3])


_TMP = None


def _init(root):
    global _TMP
    _TMP = tempfile.mkdtemp(prefix="sa_mut_")
    shutil.copytree(os.path.join(root, "inferno"), os.path.join(_TMP, "inferno"), ignore=shutil.ignore_patterns("__pycache__"))
    import atexit
    atexit.register(shutil.rmtree, _TMP, True)


def _run(job):
    props, rel, src, orig, desc, fq = job
    p = os.path.join(_TMP, rel)
    try:
        open(p, "w").write(src)
        worst, by = 0, ""
        for prop in props.split(","):
            r = subprocess.run([PY, "-I", os.path.join(VERIF, "sa", "cli.py"), prop, "--root", _TMP, "--no-evidence"],
                               capture_output=True, text=True, cwd=VERIF)
            if r.returncode == 1:
                return (rel, fq, desc, 1, prop)
            if r.returncode == 2:
                worst, by = 2, prop
        return (rel, fq, desc, worst, by)
    finally:
        open(p, "w").write(orig)


def main():
    ap = argparse.ArgumentParser()
    ap.add_argument("prop")
    ap.add_argument("-j", type=int, default=14)
    ap.add_argument("--limit", type=int, default=0)
    ap.add_argument("--root", default="/repo")
    ap.add_argument("--out", default="")
    ap.add_argument("--only", default="", help="substring of the qualified function name")
    a = ap.parse_args()
    plist = [f"C{i:02d}" for i in range(1, 21)] if a.prop == "ALL" else a.prop.split(",")
    owners = {}
    for pr in plist:
        ev = json.load(open(os.path.join(VERIF, "evidence", pr + ".json")))
        for q in ev["coverage"]["functions_analysed"]:
            owners.setdefault(q, []).append(pr)
    wanted = set(owners)
    jobs = []
    for dp, _, fs in os.walk(os.path.join(a.root, "inferno")):
        for f in fs:
            if not f.endswith(".py"):
                continue
            path = os.path.join(dp, f)
            rel = os.path.relpath(path, a.root)
            orig = open(path).read()
            tree = ast.parse(orig)
            # the unparsed original is what the scratch copy holds between mutants (line numbers then agree)
            base = ast.unparse(tree) + "\n"
            tree = ast.parse(base)
            for fn, q in qualnames(tree).items():
                if q not in wanted or (a.only and a.only not in q):
                    continue
                seen = set()
                for desc, m in mutants_of(fn):
                    u = apply(m)
                    try:
                        src = ast.unparse(tree) + "\n"
                    except Exception:
                        undo(u)
                        continue
                    undo(u)
                    if src == base or src in seen:
                        continue
                    seen.add(src)
                    try:
                        ast.parse(src)
                    except SyntaxError:
                        continue
                    try:
                        ln = int(desc.split(":")[0][1:])
                        desc += " | " + base.splitlines()[ln - 1].strip()[:110]
                    except Exception:
                        pass
                    jobs.append((",".join(owners[q]), rel, src, base, desc, q))
    # the scratch copies must hold the unparsed originals of the touched files
    if a.limit:
        import random
        random.Random(0).shuffle(jobs)
        jobs = jobs[:a.limit]
    print(f"{a.prop}: {len(jobs)} mutants over {len(set((j[1], j[5]) for j in jobs))} analysed functions", flush=True)
    res = []
    with cf.ProcessPoolExecutor(max_workers=a.j, initializer=_init, initargs=(a.root,)) as ex:
        for r in ex.map(_run, jobs, chunksize=4):
            res.append(r)
    killed = sum(1 for r in res if r[3] == 1)
    from collections import Counter
    print("reported by:", dict(Counter(r[4] for r in res if r[3] == 1)))
    err = [r for r in res if r[3] == 2]
    surv = [r for r in res if r[3] == 0]
    print(f"{a.prop}: reported {killed}, analysis-error {len(err)}, silent {len(surv)} of {len(res)}")
    out = a.out or f"/tmp/mutsweep_{a.prop.replace(',', '_')}.txt"
    with open(out, "w") as f:
        f.write(f"# {a.prop}: reported {killed}, analysis-error {len(err)}, silent {len(surv)} of {len(res)}\n")
        for r in sorted(surv):
            f.write(f"SILENT {r[0]} {r[1]} {r[2]}\n")
        for r in sorted(err):
            f.write(f"ERROR  {r[0]} {r[1]} {r[2]}\n")
    print("written", out)


if __name__ == "__main__":
    main()
