#!/bin/sh
# usage: tools/seedtests.sh <Cxx> <variant>  -- confirm in a scratch worktree: demo fails with the change, suite passes, demo passes without
ID=$1; V=$2; SRC=/tmp/seed_out/$ID/$V; WT=/tmp/sc_${ID}_$V; OUT=$SRC/confirm_tests.txt
[ -f $SRC/patch.diff ] || { echo "no patch"; exit 2; }
: > $OUT
git -C /repo worktree add -q --detach $WT HEAD || exit 2
( cd $WT && git apply $SRC/patch.diff ) || { echo "patch does not apply" | tee -a $OUT; git -C /repo worktree remove --force $WT; exit 2; }
( cd $WT && PYTHONPATH=$WT /venv/bin/python $SRC/demo.py >$SRC/demo_modified.out 2>&1 ); echo "demo_modified_rc=$?" >> $OUT
( cd $WT && /venv/bin/python -m pytest -q -p no:cacheprovider -n 6 -rf 2>&1 | grep "^FAILED\|passed\|failed" | cut -c1-200 ) >> $OUT
( cd $WT && git checkout -q -- . && PYTHONPATH=$WT /venv/bin/python $SRC/demo.py >$SRC/demo_clean.out 2>&1 ); echo "demo_clean_rc=$?" >> $OUT
git -C /repo worktree remove --force $WT
cat $OUT
