#!/bin/sh
# usage: tools/seedchecks.sh <Cxx> <variant>  -- apply the change to /repo, run all quick checks, undo it straight afterwards
ID=$1; V=$2; SRC=/tmp/seed_out/$ID/$V; OUT=$SRC/confirm_checks.txt
: > $OUT
git -C /repo apply $SRC/patch.diff || { echo "apply to /repo failed" | tee -a $OUT; exit 2; }
for p in $(seq -w 1 20); do
  r=$(cd /verif && ./check C$p --no-evidence 2>/dev/null | grep -c '^VIOLATION'); [ "$r" != "0" ] && echo "FIRES C$p" >> $OUT
done
( cd /verif && ./check $ID --no-evidence 2>/dev/null | grep '^  \[' | cut -c1-300 ) >> $OUT
git -C /repo checkout -q -- .
cat $OUT
