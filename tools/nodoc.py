"""Print repo files without docstrings (dev helper)."""
import ast,sys
def strip(src):
    t=ast.parse(src)
    for n in ast.walk(t):
        if isinstance(n,(ast.FunctionDef,ast.ClassDef,ast.Module)) and n.body and isinstance(n.body[0],ast.Expr) and isinstance(n.body[0].value,ast.Constant) and isinstance(n.body[0].value.value,str):
            n.body=n.body[1:] or [ast.Pass()]
    return ast.unparse(t)
for f in sys.argv[1:]:
    print('#'*10,f); print(strip(open('/repo/inferno/'+f).read()))
