"""Dev helper: build a scratch copy with a whole-tree benign transform.  usage: mkvariant.py rename|unparse DEST"""
import sys, os, shutil, ast
sys.path.insert(0,'/verif')
from sa import selftest
kind, dest = sys.argv[1], sys.argv[2]
shutil.rmtree(dest, ignore_errors=True); os.makedirs(dest)
selftest.make_copy('/repo', dest)
selftest.apply_edit(dest, {"transform": "rename_locals" if kind=="rename" else "unparse_all", "suffix": "_r"})
print(dest)
