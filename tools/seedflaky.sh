#!/bin/sh
# Re-run, in a scratch worktree with the seeded patch applied, the tests that failed in the confirmation
# run; a test that passes on some re-run is a randomised-input flake (they fail on the unpatched tree too).
# usage: tools/seedflaky.sh Cxx v
set -u
P=$1; V=$2; D=/tmp/seed_out/$P/$V; WT=/tmp/sf_${P}_$V
F=$(grep '^FAILED' $D/confirm_tests.txt | sed 's/^FAILED //; s/ - .*//')
[ -z "$F" ] && exit 0
git -C /repo worktree add -q --detach $WT HEAD || exit 2
git -C $WT apply $D/patch.diff || exit 2
cd $WT
echo "$F" | while read -r t; do
  ok=0; n=0
  for i in 1 2 3 4 5 6; do n=$((n+1)); /venv/bin/python -m pytest -q -p no:cacheprovider "$t" >/dev/null 2>&1 && ok=$((ok+1)); done
  echo "rerun $t: passed $ok/$n with the patch applied"
done > $D/confirm_flaky.txt
cd /; git -C /repo worktree remove --force $WT
cat $D/confirm_flaky.txt
