"""Dev helper: run generic rules over the whole repo and print findings."""
import sys; sys.path.insert(0,'/verif')
from sa.model import Program
from sa.framework import Ctx
from sa import grules as G
root=sys.argv[1] if len(sys.argv)>1 else '/repo'
P=Program(root); ctx=Ctx(P,'ALL')
fs=P.funcs; cs=P.all_classes
print('G1',G.g1_signatures(ctx,fs)); print('G2',G.g2_name_swap(ctx,fs)); print('G3',G.g3_mangled(ctx,cs))
print('G7',G.g7_getset(ctx,cs)); print('G9',G.g9_self_recursion(ctx,fs)); print('G10',G.g10_identical_arms(ctx,fs)); print('G11',G.g11_einops(ctx,fs))
print('G6',G.g6_mapping_iter(ctx,fs,G.dict_typed_attrs(P))); print('G5',G.g5_property_called(ctx,fs))
for o in ctx.findings(): print(o.rule,o.where,o.construct,'::',o.detail[:200])
