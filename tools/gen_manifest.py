"""Regenerate /verif/MANIFEST.json from the property modules (run by hand after adding a check)."""
import importlib, json, os, sys
sys.path.insert(0, '/verif')
PENDING = {}
props = [f"C{i:02d}" for i in range(1, 21)]
from sa.tables.registry import REG
ntab = {k: len(v) for k, v in REG.items()}
ntab["C01"] = ntab.get("C01", 0) + 10    # the hand-written tables of sa/props/c01_tables.py
checks, na = [], []
for p in props:
    path = f"/verif/sa/props/{p.lower()}.py"
    if not os.path.exists(path):
        na.append({"property_id": p, "reason": "static check not built yet (build in progress; see DESIGN.md §5 for the clauses planned)"})
        continue
    m = importlib.import_module(f"sa.props.{p.lower()}")
    if getattr(m, "NOT_APPLICABLE", None):
        na.append({"property_id": p, "reason": m.NOT_APPLICABLE})
        continue
    checks.append({
        "property_id": p,
        "quick_cmd": f"./check {p} --tier quick",
        "thorough_cmd": f"./check {p} --tier thorough",
        "evidence_file": f"/verif/evidence/{p}.json",
        "replay_cmd_template": f"./check {p} --explain {{path}}",
        "engine": "sa",
        "level_claimed": {"category": "other", "text": m.LEVEL_TEXT, "design_ref": m.DESIGN_REF},
        "level_note": m.LEVEL_NOTE,
        "technique": m.TECHNIQUE + (f"; whole-function decision tables ({ntab[p]} functions summarised on all paths - returns, refusals, stores, "
                                     f"ordered calls - and compared with sa/tables modulo the normal form)" if ntab.get(p) else "")
        + "; generic-rule sweep (G1-G18: signatures, role swaps, ownership of in-place updates, dead parameters, leaked loop variables ...) "
          "over the functions attributed to the property and its supporting code",
    })
man = {
    "version": 1,
    "setup_cmd": "./check --selfcheck",
    "hooks": {
        "guard": "INFERNO_VERIF",
        "enable": "none needed: the analyser only parses /repo's sources (no instrumentation, guard unused)",
        "baseline_off_cmd": "cd /repo && /venv/bin/python -m pytest -ra -q -p no:cacheprovider --timeout=900 --continue-on-collection-errors",
        "source_commits": [],
        "add_only": True,
    },
    "engines": [{
        "name": "sa",
        "path": "/verif/sa",
        "serves_properties": [c["property_id"] for c in checks],
        "kind_free_text": "repository-specific static analyser (stdlib ast): resolved program model, statement CFG, "
                          "value-flow terms with rational-function/decision-tree normal form, einops pattern algebra, "
                          "generic rules G1-G18, whole-function summaries compared with decision tables, and per-property clause rules",
    }],
    "checks": checks,
    "notes": "All checks are static: they parse /repo/inferno on every run and never import or execute it. "
             "Exit 2 + 'ANALYSIS-ERROR' means an anchor vanished or the analysis could not be carried out.",
    "not_applicable": na,
}
json.dump(man, open('/verif/MANIFEST.json', 'w'), indent=1)
print(len(checks), 'checks;', len(na), 'not applicable')
