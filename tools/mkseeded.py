"""Assemble /verif/seeded/<id>/ from the sub-agents' outputs and my confirmations."""
import json, os, shutil, re
SRC = "/tmp/seed_out"
DST = "/verif/seeded"
NEEDS = {
 "C01a": "scalar-offset readrange with length == recordsz (start == end residues)",
 "C01b": "writerange out-of-place, scalar offset, range wrapping the end of storage, observation dtype different from the record's",
 "C02a": "tensor-time select on a non-inclusive record whose duration is not a multiple of dt, time in (dt*(N-1)+tol, duration+tol]",
 "C02b": "scalar-time insert off the grid (not at the half step) with an extrapolation that uses sample_at",
 "C03a": "refractory period not a multiple of dt with fractional part < 0.5, supra-threshold drive at the early step",
 "C03b": "ALIF with accumulated threshold adaptation stepped with adapt=False / eval(), voltage between equilibrium and adapted threshold",
 "C04a": "DoubleExponentialCurrent, delay not a multiple of dt, selector strictly between delay and the next step boundary",
 "C04b": "DeltaCurrent whose dt is reassigned after construction, then a spike",
 "C05a": "Conv2D with stride >= 2 and (size + 2p - d(k-1)) not divisible by the stride",
 "C05b": "LinearLateral with an Updater applying an update with non-zero diagonal entries",
 "C06a": "Conv2D with more than one input channel and heterogeneous delays inside a kernel",
 "C06b": "delayed connection driven, clear(), then stepped again (falsy fill values)",
 "C07a": "CumulativeTraceReducer whose dt is reassigned after construction",
 "C07b": "reducer with non-zero fill (EventReducer inf/nan), duration > 0, clear(keepshape=True), view further back than the new observations",
 "C08a": "one STDP trainer, two cells sharing a neuron group, per-cell lr_pre override",
 "C08b": "cumulative trace, delayed=True, synapse delay off the step grid and not at the half step",
 "C09a": "MSTDP with per-sample reward tensor whose entries all share one sign, one-sided sign mode",
 "C09b": "step routing depression, update(), then a step routing potentiation only",
 "C10a": "updater with >= 2 parameters, parts pending for a parameter not named in updatesome(..., clear=True)",
 "C10b": "full scaled-power bounding with upper_power != lower_power and a depressing part",
 "C11a": "ALIF in training mode with adapt=False, batch size > 1, at least one sample spikes",
 "C11b": "STDP cell registered with batch_reduction=sum while the trainer default is mean, batch size > 1",
 "C12a": "checkpoint exactly at a ring wrap-around (pointer 0) loaded into a target with non-zero pointer; cleared-with-keepshape targets",
 "C12b": "MaxRateClassifier restored into a target with different derived buffers; inference before the next update()",
 "C13a": "initialised record grown (duration up / inclusive False->True) while the pointer is non-zero",
 "C13b": "refused add of an incompatible constraint on initialised storage, caller catches the ValueError and continues",
 "C14a": "delay reassigned within the same ceil(delay/dt) bucket (one of the delays not a multiple of dt)",
 "C14b": "inclusive assigned last (re-enters the duration setter with an unchanged value)",
 "C15a": "one trainer, >= 2 cells of one layer differing in neuron group or connection (Biclique)",
 "C15b": "two cells sharing a pooled monitor, then add_monitor(..., unique=True) replacing it while training",
 "C16a": "register, deregister, register on one hook object, then garbage collection while registered",
 "C16b": "Normalization with order exactly 1 on data containing negative entries",
 "C17a": "RecurrentSerial with different feedfwd/feedback out transforms after the feedback neurons spiked",
 "C17b": "delayed SingleExponentialCurrent connection, clear() after a step with input spikes",
 "C18a": "cell registered with a per-cell lr_pos override of opposite sign to the trainer default, scalar reward",
 "C18b": "delays changing after registration (co-trained by a delay trainer or assigned by the user)",
 "C19a": "offline encoder, non-dyadic dt (0.1, 0.2), refrac >= 3*dt an exact multiple of dt",
 "C19b": "online encoder with an explicit generator, an element firing twice, default RNG state differing between runs",
 "C20a": "Poisson with rate 0 at support 0",
 "C20b": "extrap_linear_backward with a non-default adjust= function",
 # ---- second round (variants c, d: asked for mechanisms other than those of a, b)
 "C01c": "typed-but-empty storage (torch.empty(0, dtype=...), UninitializedBuffer(dtype=...), after deinitialize()) whose first pushed observation has another dtype",
 "C01d": "record constructed from an nn.Parameter initial value, then an in-place write / push before any out-of-place write or align",
 "C02c": "insert with extrap_linear_backward and a non-identity adjust= at an off-grid time, then select",
 "C02d": "integer-typed record (int16/32/64), Python scalar time, off-grid",
 "C03c": "GLIF1 stepped with refrac_lock=False past at least one spike",
 "C03d": "module state in float64 and a refractory period float32 cannot represent (2.3 ms)",
 "C04c": "DeltaPlusCurrent / SingleExponentialCurrent, spike_at outside [0, delay] with non-default overbound settings",
 "C04d": "SingleExponentialCurrent with inplace=True, delay >= dt, a delayed read after a spike",
 "C05c": "undelayed LinearDirect on a stored-current synapse (SingleExponentialCurrent / DeltaPlusCurrent)",
 "C05d": "LinearLateral whose presyn_receptive is used (an STDP-type trainer on a lateral connection)",
 "C06c": "DoubleExponentialCurrent with delays > 0 whose dt (or maximum delay) is reassigned through the setter",
 "C06d": "DeltaPlusCurrent / SingleExponentialCurrent, non-zero interp_tol, non-representable dt, delays one ulp off the grid",
 "C07c": "trace reducer with a negative amplitude and at least two observations",
 "C07d": "CAReducer: clear(keepshape=True) after at least one observation, then two more",
 "C08c": "MSTDP with delayed=True on a connection with a non-zero delay",
 "C08d": "MSTDPET with a per-sample reward tensor, scale != 1 and a non-empty depressive partition",
 "C09c": "KernelSTDP whose kernel hyperparameters are passed as tensors",
 "C09d": "STDP cell registered with per-cell lr overrides whose sign mode differs from the trainer defaults",
 "C10c": "the reduced depressing parts read between two contributions with no clear in between",
 "C10d": "sharp bounding with a parameter element float-equal to the limit",
 "C11c": "batch size assigned through neuron.batchsz = B after construction (grow or shrink after use)",
 "C11d": "KernelSTDP with a sign-changing kernel, batch size > 1, weight-dependent bounds",
 "C12c": "history length set through the setters after construction on source and target, pointers differing modulo the record size",
 "C12d": "target cleared with clear(keepshape=True) and not stepped since, then load_state_dict",
 "C13c": "delay set to another value needing the same number of steps, then dt changed",
 "C13d": "non-strict constraints, a positive and a negative dim aliasing one tensor dimension, one size 0 listed first, then an edit",
 "C14c": "a setter growing a dimension of a non-float32 history (bool spikes, float16 module)",
 "C14d": "CumulativeTraceReducer whose dt is assigned twice with different values",
 "C15c": "trainer eval() then train(), then a monitor dropped through garbage collection",
 "C15d": "MSTDPET with layer steps taken under layer.eval() while the trainer stays in train mode",
 "C16c": "an unregistered (or deregistered) hook called manually with ignore_mode=True, force=False",
 "C16d": "a Clamping / Normalization hook whose attr path has three or more components",
 "C17c": "Biclique with a per-neuron-group output transform given as (name, neuron, transform)",
 "C17d": "ALIF neurons with refrac_t > 0, clear() within refrac_t ms of a spike",
 "C18c": "DelayAdjustedKernelSTDP whose kernel hyperparameters are passed as tensors",
 "C18d": "one trainer holding two cells of the same layer with different connections onto one neuron group",
 "C19c": "encoder built with refrac=None, refrac assigned, then dt assigned",
 "C19d": "PoissonIntervalEncoder online with inputs exactly 0 (last yielded slice)",
 "C20c": "tensor cost containing inf and two trains sharing a spike time",
 "C20d": "LogNormal with scale below about 1e-2 (float32 cancellation)",
 # ---- third round (variants e, f; variant g is a behaviour-preserving refactoring by the same sub-agent)
 "C01e": "out-of-place write / push / latest setter with an observation whose dtype differs from the record's",
 "C01f": "pop / decr when the pointer is 0 (after exactly N pushes or reset), decr(pos) with pos > pointer, records of size 1",
 "C02e": "rt.dt = x after construction where the record size does not change (select / insert keep the old step time)",
 "C02f": "scalar on-grid insert, inplace=False, observation dtype wider than the record's",
 "C03e": "QIF / Izhikevich with resistance != 1",
 "C03f": "ALIF / GLIF2 with a net-negative threshold adaptation and a voltage between the true threshold and the equilibrium",
 "C04e": "interp_tol above 1e-6, delay > 0, selector off the grid but within tolerance of a step",
 "C04f": "synapse.delay assigned after construction, then a delayed read between the old and the new maximum",
 "C05e": "dense / lateral connection on a DeltaPlusCurrent synapse called with an extra injected-current input",
 "C05f": "an advertised batched shape read once, then conn.batchsz changed",
 "C06e": "maximum delay raised through the setter after construction, then a learned delay above the old maximum",
 "C06f": "DeltaPlusCurrent built through partialconstructor with interp_mode='nearest' and an off-grid learned delay",
 "C07e": "scaled cumulative trace with scale != 0 and graded observations whose non-matching entries are non-zero",
 "C07f": "EventReducer with duration > 0, off-grid view time, an event at the newer end of the interval",
 "C08e": "TripletSTDP with delayed=True, delayedby >= dt and a synapse at the maximum delay",
 "C08f": "trace_mode='nearest' and the step time changed through the dt setters after register_cell",
 "C09e": "an updater managing more than one parameter (trainable delays or a bias)",
 "C09f": "two cells of one layer sharing the postsynaptic neuron in one TripletSTDP, the second overriding only lr_pre_pair",
 "C10e": "a one-sided accumulation (only potentiating or only depressing parts) at update time",
 "C10f": "full multiplicative bounding with max == 0.0",
 "C11e": "Serial with distinct connection / neuron names, adaptation frozen through neuron_kwargs, batch size > 1",
 "C11f": "Biclique with a string combine mode, at least two connections, batch size >= 2",
 "C12e": "RecurrentSerial whose target's last feedback spikes differ from the source's at the checkpoint",
 "C12f": "MaxRateClassifier target that is a copy.deepcopy of another instance",
 "C13e": "undelayed record (duration 0), inclusive=True, then an assignment to dt",
 "C13f": "strict constraints with both a non-negative and a negative constrained dim and a tensor of intermediate rank",
 "C14e": "reducer duration assigned a value equal to its current step time",
 "C14f": "DoubleExponentialCurrent whose dt / delay is assigned after construction (delayed read-outs)",
 "C15e": "register_cell / add_monitor while trainer.eval() is in force and the layer keeps stepping in training mode",
 "C15f": "MSTDPET with a trace / spike monitor replaced after registration (prepend ignored for post-hook monitors)",
 "C16e": "Normalization hook with train_update != eval_update called in eval mode",
 "C16f": "Clamping an integer-typed attribute with a fractional bound",
 "C17e": "Biclique with unequal numbers of connections and neuron groups, then clear()",
 "C17f": "DoubleExponentialCurrent synapse, clear() after at least one input spike",
 "C18e": "DelayAdjustedMSTDPD with a Python float reward, at least two cells, |signal| != 1",
 "C18f": "DelayAdjustedKernelSTDPD with a non-additive batch reduction, same-sign rates, batch size > 1",
 "C19e": "HomogeneousPoissonEncoder online with a refractory period larger than the step time",
 "C19f": "encoder steps reconfigured through the setter",
 "C20e": "Normal.cdf / logcdf on a tensor support with loc != 0 whose grid is reused after the call",
 "C20f": "extrap_linear_forward with a non-identity adjust=",
}
INITIAL = {  # which checks fired when the change was first tried, before any strengthening prompted by it
 "C05b": ["C10"], "C06a": [], "C06b": [], "C07a": [], "C07b": [], "C08b": ["C07"], "C09a": [], "C09b": ["C10"], "C11a": [], "C11b": ["C08", "C09"],
 "C12b": [], "C14a": [], "C14b": [], "C15a": [], "C15b": [], "C17b": ["C04"], "C18a": ["C09"], "C20b": [],
 "C03b": ["C03", "C11"], "C18b": ["C06", "C18"], "C13a": ["C13"],
 # second round, C01-C10: swept before anything prompted by the second round was added
 "C01c": [], "C01d": [], "C02c": ["C20"], "C02d": [], "C03c": ["C03"], "C03d": [], "C04c": [], "C04d": ["C04"], "C05c": [], "C05d": ["C05"],
 "C06c": ["C04"], "C06d": [], "C07c": ["C07", "C09"], "C07d": [], "C08c": ["C06"], "C08d": ["C08", "C09"], "C09c": [], "C09d": ["C08", "C09"],
 "C10c": ["C09", "C10"], "C10d": ["C10"],
 # second round, C11-C20: swept after the generic rules G2b / G12 / G13 / G14 and the shared clauses prompted by C01-C10 of this round
 "C11c": ["C14"], "C11d": ["C18"], "C12c": ["C01", "C12"], "C12d": ["C12"], "C13c": ["C14"], "C13d": ["C13"], "C14c": ["C13"], "C14d": ["C07", "C14"],
 "C15c": ["C16"], "C15d": ["C15"], "C16c": ["C15", "C16"], "C16d": ["C16"], "C17c": [], "C17d": ["C17"], "C18c": ["C09", "C18"], "C18d": ["C15"],
 "C19c": [], "C19d": ["C19"], "C20c": ["C20"], "C20d": ["C20"],
 # third round: swept with the machinery as it stood after round two (decision tables and generic rules in place)
 "C01e": ["C01"], "C01f": ["C01"], "C02e": ["C13", "C14"], "C02f": ["C01"], "C03e": ["C03"], "C03f": ["C03"], "C04e": ["C04"], "C04f": [],
 "C05e": ["C05"], "C05f": [], "C06e": ["C14"], "C06f": [], "C07e": ["C07", "C08"], "C07f": ["C07"], "C08e": ["C08"], "C08f": ["C07", "C14"],
 "C09e": ["C10"], "C09f": ["C08", "C15"], "C10e": ["C10"], "C10f": ["C10"],
 "C11e": ["C17"], "C11f": ["C11", "C17"], "C12e": ["C12"], "C12f": ["C12"], "C13e": ["C02", "C13", "C14"], "C13f": ["C13"],
 "C14e": ["C07", "C13", "C14"], "C14f": ["C04", "C06"], "C15e": ["C15"], "C15f": ["C15"], "C16e": ["C16"], "C16f": ["C16"],
 "C17e": ["C17"], "C17f": ["C04", "C17"], "C18e": ["C18"], "C18f": ["C18"], "C19e": ["C19"], "C19f": ["C14", "C19"], "C20e": [], "C20f": ["C02", "C20"],
}
ADDED = {  # what the seeded change led to in the machinery (empty: the target check caught it as it stood)
 "C03b": "C11 fired as well although C11 still holds (the tested flag is rebound before the branch): false alarm, truth tables now follow rebinding of a tested flag (DESIGN 11)",
 "C05b": "C05.d: parameter write-back may not go through `.data` of a masked parameter; C10.c relaxed to accept the value-equivalent write-back so that only C05 fires",
 "C06a": "C06.c: the selector flattens the delay with the same axis order as forward flattens the weight (einops pattern algebra)",
 "C06b": "C06.e / C01.c: clear() and reset() erase history for every fill value (falsy included): `is not None` test required, reset_semantics spec",
 "C07a": "C07.b: G8 ordering -- derived state recomputed after the field it is derived from is stored",
 "C07b": "C07.c: clear(keepshape=True) refills with the reducer's own fill value",
 "C08b": "C08.f: trace-reducer interpolation between samples agrees with the decay specification",
 "C09a": "C09.a: IfExp guard consistency, and a sign test must be on the very tensor it routes",
 "C09b": "C09.e: cache pairing -- every part cache invalidated wherever the parts change (shared with C10)",
 "C11a": "C11.e: adaptation guard truth table over (adapt, training)",
 "C11b": "C11.d: only the cell's configured `state.batchreduce` may fold the batch axis",
 "C12b": "C12.c: the post-load setter stores on every path (CFG must-pass)",
 "C13a": "report named the wrong clause (C13.c): CFG guards now split conjunctions; align extra-guard rule",
 "C14a": "C14.c: the propagation loop may carry no extra guard that skips a recompute",
 "C14b": "C14.c / C13.b: recompute_on_every_path for setters that re-enter each other",
 "C15a": "C15.h: the pool key is the realigned attribute path, per cell",
 "C15b": "C15.e: every deregistration site in MonitorPool covered, not only the first",
 "C17b": "C17.d: a record-backed assignment is not a reset; clear must reach every record",
 "C18a": "C18.d: routing walker shared with C09 run on the per-cell override values",
 "C18b": "C06.d made silent (a registration-time copy still applies the delay once); only C18.a reports the stale copy",
 "C20b": "C20.a: adjust-symbolic specification (identity check of the adjust hook)",
 "C01c": "C01.j: decision tables of push / pop / peek / incr / decr / reset / align / initialize (returned value, refusals, stores, ordered calls)",
 "C01d": "C01.j: table of RecordTensor.__init__ (storage copied into every slot by unsqueeze + repeat)",
 "C02c": "C02.g: the interpolation / extrapolation algebra of C20.a is shared with C02",
 "C02d": "C02.f: sibling template of the core.tensor constructors (fullc's documented dtype rule)",
 "C03d": "G14: an exact comparison may not pass one side through a conversion that can round",
 "C04c": "G18: a named parameter that the body never reads (the option is silently ignored)",
 "C05c": "G13: in-place update of a tensor the function does not own (property values, component results, parameters, views)",
 "C06c": "C06.f: every delay record is registered so that the dt / delay setters reach it (shared with C04.e)",
 "C06d": "generic-rule sweep (G2 swapped positional roles) in the quick tier, also over the supporting code of a property",
 "C07d": "C07.c: every piece of state a fold method accumulates in self is reset by clear on every path",
 "C08c": "C08.a/C06.d: monitor attribute and its read in forward agree on who applies the delay (clause shared with C06)",
 "C09c": "G2b: a callee named after one role of an opposing pair (pre/post, pos/neg, upper/lower) receives only values of that role",
 "C11c": "C11.f: resizing the batch resets the per-sample state unconditionally (clause shared with C14.c)",
 "C11d": "C11.d: what happens to a batch-reduced quantity afterwards is linear (no clamp / abs / sign split after the reduction)",
 "C13c": "C13.g: the owners' dt / delay / duration setters forward every new value (clause shared with C14.c)",
 "C14c": "C14.f: the resize primitives (size formula, __make_compatible, resize) are shared with C13.a / C13.d",
 "C15c": "C15.j: hook register / deregister typestate shared with C16.a",
 "C17c": "G15: a loop variable read after its loop",
 "C18d": "C18.e: pooled-monitor identity clauses (C15.f / C15.h) shared for the delay-adjusted and kernel trainers",
 "C19c": "G16: both arms of a mode switch in a setter store the same fields",
 "C02e": "C02.i: the record's dt / duration setters (C13.b and their tables) are shared with C02",
 "C02f": "C02.j: the write primitive's dtype discipline (C01.d and its table) is shared with C02",
 "C04f": "summaries record stores through computed objects (`getattr(self, name).duration = v`) as ordered effects; C04.f shares the DelayedMixin tables",
 "C05f": "summaries include how a function is wrapped (decorators: a cached property is not a property) and parameter defaults; C05.e shares the Connection tables",
 "C06e": "C06.g: the DelayedMixin setters' tables are shared with C06",
 "C06f": "summaries identify nested definitions (closures) by their text: a keyword dropped inside the closure of a partial constructor changes the summary",
 "C08f": "C08.g also imports the derived-state ordering clause (C07.b) and the trace reducers' tables",
 "C09e": "C09.g: the updater's accumulator wiring (C10.a/b and tables) is shared with C09",
 "C09f": "C09.h: pool-key completeness (C15.f) is shared with C09",
 "C11e": "C11.g: layer forward / wiring tables (C17) are shared with C11",
 "C14f": "C14.g: record registration (C04.e) is shared with C14",
 "C20e": "in-place operators (`x -= y`) are effects in summaries, not rebinding: a function that updates its caller's tensor is not the function that computes a new one",
}
os.makedirs(DST, exist_ok=True)
rows = []
for pid in [f"C{i:02d}" for i in range(1, 21)]:
    for v in "abcdef":
        src = f"{SRC}/{pid}/{v}"
        if not os.path.exists(f"{src}/patch.diff"):
            continue
        key = pid + v
        dst = f"{DST}/{key}"
        os.makedirs(dst, exist_ok=True)
        shutil.copy(f"{src}/patch.diff", f"{dst}/patch.diff")
        shutil.copy(f"{src}/demo.py", f"{dst}/demo.py")
        tests = open(f"{src}/confirm_tests.txt").read().strip().splitlines() if os.path.exists(f"{src}/confirm_tests.txt") else []
        checks = open(f"{src}/confirm_checks.txt").read().strip().splitlines() if os.path.exists(f"{src}/confirm_checks.txt") else []
        fires = [l.split()[1] for l in checks if l.startswith("FIRES")]
        report = [l.strip() for l in checks if l.strip().startswith("[")]
        failed = [l for l in tests if l.startswith("FAILED")]
        flaky = open(f"{src}/confirm_flaky.txt").read().strip().splitlines() if os.path.exists(f"{src}/confirm_flaky.txt") else []
        summary = [l for l in tests if "passed" in l]
        meta = {
            "id": key, "breaks_property": pid, "author": "independent sub-agent (given only the property text and a scratch worktree)",
            "needs_to_manifest": NEEDS.get(key, ""),
            "what_was_run": {
                "demo_on_modified_tree": next((l for l in tests if l.startswith("demo_modified_rc")), "not run"),
                "demo_on_clean_tree": next((l for l in tests if l.startswith("demo_clean_rc")), "not run"),
                "existing_suite_on_modified_tree": summary[0] if summary else "not run",
                "suite_failures_all_in_preexisting_flaky_randomised_tests": failed,
                "reruns_of_those_tests_with_the_patch_applied": flaky,
                "checks": "tools/seedchecks.sh: git -C /repo apply patch.diff; ./check Cxx for all 20 properties; git -C /repo checkout -- . (final sweep repeated with tools/seedchecks_par.sh on scratch copies via --root)",
            },
            "checks_that_fire_now": fires,
            "checks_that_fired_when_first_tried": INITIAL.get(key, fires),
            "report_of_target_check": report[:3],
            "led_to": ADDED.get(key, ""),
            "agent_notes": open(f"{src}/notes.md").read() if os.path.exists(f"{src}/notes.md") else "",
        }
        json.dump(meta, open(f"{dst}/meta.json", "w"), indent=1)
        rows.append((key, NEEDS.get(key, ""), INITIAL.get(key, fires), fires, summary[0] if summary else "pending", len(failed)))
# ---- behaviour-preserving refactorings written by the same sub-agents (variant g): every check must stay silent
FIRST_G = {"C01g": ["C01", "C11"], "C02g": ["C02"], "C03g": [], "C04g": ["C04", "C13", "C14"], "C05g": ["C05", "C06"], "C06g": [], "C07g": [],
           "C08g": ["C06", "C08", "C09", "C15"], "C09g": [], "C10g": ["C10"], "C11g": ["C17"], "C12g": ["C12"], "C13g": ["C02", "C13", "C14"],
           "C14g": ["C07"], "C15g": ["C15"], "C16g": ["C15", "C16"], "C17g": ["C17"], "C18g": [], "C19g": ["C19"], "C20g": []}
grows = []
for pid in [f"C{i:02d}" for i in range(1, 21)]:
    src = f"{SRC}/{pid}/g"
    if not os.path.exists(f"{src}/patch.diff"):
        continue
    key = pid + "g"
    dst = f"{DST}/{key}"
    os.makedirs(dst, exist_ok=True)
    shutil.copy(f"{src}/patch.diff", f"{dst}/patch.diff")
    shutil.copy(f"{src}/demo.py", f"{dst}/demo.py")
    tests = open(f"{src}/confirm_tests.txt").read().strip().splitlines() if os.path.exists(f"{src}/confirm_tests.txt") else []
    checks = open(f"{src}/confirm_checks.txt").read().strip().splitlines() if os.path.exists(f"{src}/confirm_checks.txt") else []
    fires = [l.split()[1] for l in checks if l.startswith("FIRES")]
    failed = [l for l in tests if l.startswith("FAILED")]
    flaky = open(f"{src}/confirm_flaky.txt").read().strip().splitlines() if os.path.exists(f"{src}/confirm_flaky.txt") else []
    summary = [l for l in tests if "passed" in l]
    meta = {
        "id": key, "kind": "behaviour-preserving refactoring (the property must still hold: every check must stay silent)", "written_for_property": pid,
        "author": "independent sub-agent (given only the property text and a scratch worktree)",
        "what_was_run": {
            "demo_on_refactored_tree": next((l for l in tests if l.startswith("demo_modified_rc")), "not run"),
            "demo_on_clean_tree": next((l for l in tests if l.startswith("demo_clean_rc")), "not run"),
            "existing_suite_on_refactored_tree": summary[0] if summary else "not run",
            "suite_failures_all_in_preexisting_flaky_randomised_tests": failed,
            "reruns_of_those_tests_with_the_patch_applied": flaky,
        },
        "checks_that_fired_when_first_tried": FIRST_G.get(key, []),
        "checks_that_fire_now": fires,
        "unresolved_false_alarm": bool(fires),
        "agent_notes": open(f"{src}/notes.md").read() if os.path.exists(f"{src}/notes.md") else "",
    }
    json.dump(meta, open(f"{dst}/meta.json", "w"), indent=1)
    grows.append((key, FIRST_G.get(key, []), fires, summary[0] if summary else "pending"))
with open(f"{DST}/README_refactorings.md", "w") as f:
    f.write("| refactoring | checks firing when first tried (false alarms) | checks firing now | suite with the refactoring |\n|---|---|---|---|\n")
    for key, ini, fires, summ in grows:
        f.write(f"| {key} | {', '.join(ini) or 'none'} | {', '.join(fires) or 'none'} | {summ} |\n")
with open(f"{DST}/README.md", "w") as f:
    f.write("| change | needs, in order to manifest | checks firing when first tried | checks firing now | suite with the change |\n|---|---|---|---|---|\n")
    for key, needs, ini, fires, summ, nf in rows:
        f.write(f"| {key} | {needs} | {', '.join(ini) or 'none'} | {', '.join(fires)} | {summ}{' (failures: randomised-input flakes, see meta.json)' if nf else ''} |\n")
for r in rows:
    print(r[0], r[2], r[3], r[4], r[5])
