#!/bin/sh
# usage: tools/seedchecks_par.sh <Cxx> <variant> -- like seedchecks.sh but on a scratch copy of /repo's package
# (checks read the tree given by --root), so several seeds can be swept at once without touching /repo.
ID=$1; V=$2; SRC=/tmp/seed_out/$ID/$V; OUT=$SRC/confirm_checks.txt; T=$(mktemp -d /tmp/sweep_XXXXXX)
mkdir -p $T/r && (cd /repo && git archive HEAD inferno | tar -x -C $T/r) && (cd $T/r && git init -q . && git apply $SRC/patch.diff) || { echo "apply failed" > $OUT; rm -rf $T; exit 2; }
: > $OUT
for p in $(seq -w 1 20); do
  r=$(cd /verif && ./check C$p --no-evidence --root $T/r 2>/dev/null | grep -c '^VIOLATION'); [ "$r" != "0" ] && echo "FIRES C$p" >> $OUT
done
( cd /verif && ./check $ID --no-evidence --root $T/r 2>/dev/null | grep '^  \[' | cut -c1-300 ) >> $OUT
rm -rf $T
