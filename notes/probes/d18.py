import sys
root=sys.argv[1]; sys.path.insert(0,root)
import torch, inferno
from inferno.neural import LIF, DeltaCurrent, LinearDense, Biclique
from inferno.learn import STDP
mk=lambda: LinearDense(3,2,1.0,synapse=DeltaCurrent.partialconstructor(1.0))
c1,c2=mk(),mk(); n=LIF(2,1.0,rest_v=-60,reset_v=-65,thresh_v=-50,refrac_t=2,time_constant=20)
layer=Biclique([('a',c1),('b',c2)],[('n',n)])
for c in (c1,c2): c.updater=c.defaultupdater()
tr=STDP(1e-3,-1e-3,20,20)
tr.register_cell('ca',layer.cells.a.n); tr.register_cell('cb',layer.cells.b.n)
shared = tr.get_monitor('ca','trace_post') is tr.get_monitor('cb','trace_post')
layer({'a':(torch.ones(1,3),),'b':(torch.ones(1,3),)})
tr.del_cell('ca')
m=tr.get_monitor('cb','trace_post')
before=m.peek().clone() if m.peek() is not None else None
layer({'a':(torch.ones(1,3)*50,),'b':(torch.ones(1,3)*50,)})
print('shared',shared,'registered after del:',m.registered)
try:
    tr(); print('trainer step OK')
except Exception as e: print('trainer step FAIL',type(e).__name__,e)
