import ast, pathlib, re
root=pathlib.Path('/repo/inferno')
def toks(side):
    # returns set of identifiers, handles parentheses, ellipsis, 1, ()
    ids=set()
    for t in re.findall(r'[A-Za-z_][A-Za-z0-9_]*|\.\.\.|\(|\)|\d+', side):
        if t in ('(',')','...') or t.isdigit(): continue
        ids.add(t)
    return ids
for f in root.rglob('*.py'):
    t=ast.parse(f.read_text())
    for n in ast.walk(t):
        if isinstance(n,ast.Call) and isinstance(n.func,ast.Attribute) and isinstance(n.func.value,ast.Name) and n.func.value.id=='ein':
            op=n.func.attr
            pat=[a.value for a in n.args if isinstance(a,ast.Constant) and isinstance(a.value,str)]
            if not pat: print('NOPAT',f.name,n.lineno,op); continue
            p=pat[0]
            if '->' not in p: print('NOARROW',f.name,n.lineno,p); continue
            l,r=p.split('->')
            kw={k.arg for k in n.keywords if k.arg}
            if op=='rearrange':
                L=set().union(*[toks(x) for x in l.split(',')]); R=toks(r)
                if L!=R: print('MISMATCH',f.name,n.lineno,op,repr(p),'L-R',L-R,'R-L',R-L)
                if not kw<= (L|R): print('KW',f.name,n.lineno,kw-(L|R))
            elif op=='einsum':
                L=set().union(*[toks(x) for x in l.split(',')]); R=toks(r)
                nops=len([a for a in n.args if not (isinstance(a,ast.Constant) and isinstance(a.value,str))])
                if not R<=L: print('EINSUM-OUT',f.name,n.lineno,p)
                if nops!=len(l.split(',')): print('EINSUM-N',f.name,n.lineno,p,nops)
            elif op in('reduce','repeat'):
                L=toks(l); R=toks(r)
                if op=='reduce' and not R<=L|kw: print('REDUCE',f.name,n.lineno,p)
                if op=='repeat' and not L<=R: print('REPEAT',f.name,n.lineno,p)
