import ast, sys, pathlib, re, collections
root=pathlib.Path('/repo/inferno')
reads=collections.defaultdict(list); writes=collections.defaultdict(set)
strs=set()
for f in root.rglob('*.py'):
    t=ast.parse(f.read_text())
    for n in ast.walk(t):
        if isinstance(n,ast.Constant) and isinstance(n.value,str): strs.add(n.value)
    for cls in [n for n in ast.walk(t) if isinstance(n,ast.ClassDef)]:
        cname=cls.name.lstrip('_')
        # only nodes whose nearest enclosing class is cls
        def visit(node, inner=False):
            for ch in ast.iter_child_nodes(node):
                if isinstance(ch,ast.ClassDef): continue
                if isinstance(ch,ast.Attribute) and ch.attr.startswith('__') and not ch.attr.endswith('__'):
                    m=f'_{cname}{ch.attr}'
                    if isinstance(ch.ctx,ast.Store): writes[(cls.name)].add(m)
                    else: reads[(cls.name)].append((m,f.name,ch.lineno))
                if isinstance(ch,ast.FunctionDef) and ch.name.startswith('__') and not ch.name.endswith('__'):
                    writes[cls.name].add(f'_{cname}{ch.name}')
                visit(ch)
        visit(cls)
for c,rs in reads.items():
    for m,f,l in rs:
        if m not in writes[c]:
            print(c,m,f,l)
