import ast, pathlib, collections
root=pathlib.Path('/repo/inferno')
for f in sorted(root.rglob('*.py')):
    t=ast.parse(f.read_text())
    for cls in [n for n in t.body if isinstance(n,ast.ClassDef)]:
        for m in cls.body:
            if isinstance(m,ast.FunctionDef) and m.name not in('__init__',):
                decs=[ast.unparse(d) for d in m.decorator_list]
                st=set()
                for n in ast.walk(m):
                    if isinstance(n,ast.Attribute) and isinstance(n.ctx,ast.Store) and isinstance(n.value,ast.Name) and n.value.id=='self':
                        st.add(n.attr)
                    if isinstance(n,ast.AugAssign) and isinstance(n.target,ast.Attribute) and isinstance(n.target.value,ast.Name) and n.target.value.id=='self':
                        st.add(n.target.attr)
                if st: print(f'{f.relative_to(root)}:{cls.name}.{m.name}{"[setter]" if any(d.endswith(".setter") for d in decs) else ""}: {sorted(st)}')
