import ast, pathlib, re, sys
sys.path.insert(0,'/tmp/probe')
root=pathlib.Path('/repo'); pkg=root/'inferno'
# reuse resolver from sig.py by exec'ing its definitions up to check()
src=open('/tmp/probe/sig.py').read().split('n_res=0;n_all=0')[0]
import io, contextlib
exec(src)
def stem(e):
    if isinstance(e,ast.Attribute): s=e.attr
    elif isinstance(e,ast.Name): s=e.id
    else: return None
    return s.strip('_')
def norm(p): return p.strip('_')
cnt=0
def chk(call,fn,skip,where):
    global cnt
    pos=[x.arg for x in fn.args.posonlyargs+fn.args.args]
    if skip: pos=pos[1:]
    args=[a for a in call.args]
    if any(isinstance(a,ast.Starred) for a in args): return
    cnt+=1
    st=[stem(a) for a in args]
    for i,(s,p) in enumerate(zip(st,pos)):
        if s is None: continue
        for j,(s2,p2) in enumerate(zip(st,pos)):
            if j<=i or s2 is None: continue
            # swap: stem i matches param j and stem j matches param i (suffix match)
            def m(a,b): a=a.lower(); b=norm(b).lower(); return a==b or a.endswith('_'+b) or a.endswith(b) and len(b)>=5
            if m(s,p2) and m(s2,p) and not (m(s,p) and m(s2,p2)):
                print('SWAP',where,fn.name,f'arg{i}={s}->{p}',f'arg{j}={s2}->{p2}')
for m_,(f,t) in mods.items():
    for call in [n for n in ast.walk(t) if isinstance(n,ast.Call)]:
        fnode=call.func; where=f'{f.relative_to(root)}:{call.lineno}'
        if isinstance(fnode,ast.Name):
            r=resolve(m_,fnode.id)
            if r and r[0]!='module':
                d=r[1]
                if isinstance(d,ast.FunctionDef): chk(call,d,False,where)
                elif isinstance(d,ast.ClassDef):
                    init=[x for x in d.body if isinstance(x,ast.FunctionDef) and x.name=='__init__']
                    if init: chk(call,init[0],True,where)
        elif isinstance(fnode,ast.Attribute) and isinstance(fnode.value,ast.Name):
            r=resolve(m_,fnode.value.id)
            if r and r[0]=='module':
                r2=resolve(r[1],fnode.attr)
                if r2 and r2[0]!='module' and isinstance(r2[1],ast.FunctionDef): chk(call,r2[1],False,where)
            elif r and isinstance(r[1],ast.ClassDef):
                meth=[x for x in r[1].body if isinstance(x,ast.FunctionDef) and x.name==fnode.attr]
                if meth: chk(call,meth[0],False,where)
print('checked',cnt)
