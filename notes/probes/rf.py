"""Throwaway prototype 2: rational-function pairs, equality by cross-multiplication, ite context simplification."""
import ast
from fractions import Fraction
from collections import Counter
ONE={frozenset():Fraction(1)}
def padd(p,q):
    r=dict(p)
    for m,c in q.items():
        r[m]=r.get(m,0)+c
        if r[m]==0: del r[m]
    return r
def pscale(p,k): return {m:c*k for m,c in p.items()} if k!=0 else {}
def mm(m1,m2):
    d=Counter(dict(m1))
    for a,e in m2: d[a]+=e
    return frozenset((a,e) for a,e in d.items() if e!=0)
def pmul(p,q):
    r={}
    for m1,c1 in p.items():
        for m2,c2 in q.items():
            m=mm(m1,m2); r[m]=r.get(m,0)+c1*c2
            if r[m]==0: del r[m]
    return r
def fz(p): return tuple(sorted(((tuple(sorted(m,key=repr)),c) for m,c in p.items()),key=repr))
class R:  # rational num/den
    def __init__(s,num,den=None): s.n=num; s.d=den if den is not None else dict(ONE)
    def __add__(a,b): return R(padd(pmul(a.n,b.d),pmul(b.n,a.d)),pmul(a.d,b.d)).red()
    def __neg__(a): return R(pscale(a.n,-1),a.d)
    def __sub__(a,b): return a+(-b)
    def __mul__(a,b): return R(pmul(a.n,b.n),pmul(a.d,b.d)).red()
    def inv(a): return R(a.d,a.n).red()
    def red(a):
        # cheap reduction: if den is a single monomial with coefficient, fold coefficient; cancel common monomial factors
        if a.n==a.d and a.n: return R(dict(ONE))
        if len(a.d)==1:
            (m,c),=a.d.items()
            if not m: return R(pscale(a.n,1/c))
        return a
    def eq(a,b): return pmul(a.n,b.d)==pmul(b.n,a.d)
    def key(a): return ('R',fz(a.n),fz(a.d))
def C(c): return R({frozenset():Fraction(c)} if c!=0 else {})
def A(x): return R({frozenset([(x,1)]):Fraction(1)})
class Norm:
    def __init__(s,env=None,facts=()): s.env=dict(env or {}); s.facts=dict(facts)  # cond-key -> bool
    def sub(s,facts): n=Norm(s.env,{**s.facts,**facts}); return n
    def n(s,e):
        if isinstance(e,ast.Constant) and isinstance(e.value,(int,float)) and not isinstance(e.value,bool): return C(Fraction(str(e.value)))
        if isinstance(e,ast.Name):
            v=s.env.get(e.id)
            if v is None: return A(e.id)
            return v(s) if callable(v) else v
        if isinstance(e,ast.UnaryOp) and isinstance(e.op,ast.USub): return -s.n(e.operand)
        if isinstance(e,ast.BinOp):
            a,b=s.n(e.left),s.n(e.right)
            if isinstance(e.op,ast.Add): return a+b
            if isinstance(e.op,ast.Sub): return a-b
            if isinstance(e.op,ast.Mult): return a*b
            if isinstance(e.op,ast.Div): return a*b.inv()
        if isinstance(e,ast.Compare):
            a,b=s.n(e.left),s.n(e.comparators[0]); op=type(e.ops[0]).__name__
            d=a-b
            if op in('Lt','LtE'): d=-d; op={'Lt':'Gt','LtE':'GtE'}[op]
            # sign-preserving: multiply by denominator assumed positive (declared positive symbols only in this proto)
            num=d.n; f=fz(num); k=abs(f[0][1]) if f else 1
            return ('cmp',op,fz(pscale(num,1/k)))
        if isinstance(e,ast.Tuple): return [s.n(x) for x in e.elts]
        if isinstance(e,ast.Call):
            f=e.func; name=f.attr if isinstance(f,ast.Attribute) else f.id
            if name=='where':
                c=s.n(e.args[0]); 
                return s.ite(c,e.args[1],e.args[2])
            if name=='exp':
                a=s.n(e.args[0]); 
                if not a.n: return C(1)
                return A(('exp',a.key()))
            args=[s.n(a) for a in e.args]
            return A((name,)+tuple(x.key() if isinstance(x,R) else x for x in args))
        raise NotImplementedError(ast.dump(e)[:60])
    def ite(s,c,ea,eb):
        if c in s.facts: return s.n(ea) if s.facts[c] else s.n(eb)
        a=s.sub({c:True}).n(ea); b=s.sub({c:False}).n(eb)
        if a.eq(b): return a
        return A(('ite',c,a.key(),b.key()))
def terms(src,fname,env):
    t=ast.parse(src); f=[n for n in ast.walk(t) if isinstance(n,ast.FunctionDef) and n.name==fname][0]
    # lazily evaluated env: store ASTs; evaluate under current facts
    nz_env=dict(env)
    body=[st for st in f.body if not isinstance(st,ast.Expr)]
    defs={}
    for st in body:
        if isinstance(st,ast.Assign): 
            name=st.targets[0].id; val=st.value; prev=dict(defs)
            defs[name]=(val,prev)
        elif isinstance(st,ast.Return): ret=(st.value,dict(defs))
    def mk(valprev):
        val,prev=valprev
        def thunk(nz):
            sub=Norm({**nz_env,**{k:mk(v) for k,v in prev.items()}},nz.facts)
            return sub.n(val)
        return thunk
    return ret, mk, nz_env
import sys
I=open('/repo/inferno/functional/interpolation.py').read()
E=open('/repo/inferno/functional/extrapolation.py').read().replace('adjust(prev_data) if adjust else prev_data','prev_data').replace('adjust(next_data) if adjust else next_data','next_data')
def compose(ex,ip):
    (rv,defs),mk,_=terms(E,ex,{})
    # thunks for the two tuple elements, evaluated under caller facts
    def elem(i):
        def th(nz):
            sub=Norm({k:mk(v) for k,v in defs.items()},nz.facts)
            return sub.n(rv.elts[i])
        return th
    (rv2,defs2),mk2,_=terms(I,ip,{'prev_data':elem(0),'next_data':elem(1)})
    nz=Norm({**{'prev_data':elem(0),'next_data':elem(1)},**{}})
    env={'prev_data':elem(0),'next_data':elem(1)}
    def mk3(valprev):
        val,prev=valprev
        def thunk(nz):
            return Norm({**env,**{k:mk3(v) for k,v in prev.items()}},nz.facts).n(val)
        return thunk
    top=Norm({**env,**{k:mk3(v) for k,v in defs2.items()}})
    return top.n(rv2)
for ex,ip in [('extrap_nearest','interp_nearest'),('extrap_linear_backward','interp_linear'),('extrap_linear_forward','interp_linear'),('extrap_expdecay','interp_expdecay'),('extrap_previous','interp_previous')]:
    r=compose(ex,ip); print(ex,ip,'IDENTITY' if r.eq(A('sample')) else r.key())
