import ast, pathlib
root=pathlib.Path('/repo/inferno/learn/trainers')
for f in sorted(root.glob('*.py')):
    t=ast.parse(f.read_text())
    for cls in [n for n in t.body if isinstance(n,ast.ClassDef)]:
        meths={m.name:m for m in cls.body if isinstance(m,ast.FunctionDef)}
        if '_build_cell_state' not in meths: continue
        keys=set()
        for n in ast.walk(meths['_build_cell_state']):
            if isinstance(n,ast.Attribute) and isinstance(n.value,ast.Name) and n.value.id=='state' and isinstance(n.ctx,ast.Store): keys.add(n.attr)
            if isinstance(n,ast.Call) and isinstance(n.func,ast.Attribute) and n.func.attr=='register_buffer' and isinstance(n.func.value,ast.Name) and n.func.value.id=='state': keys.add(n.args[0].value)
        for mn in ('register_cell','forward'):
            for n in ast.walk(meths[mn]):
                if isinstance(n,ast.Attribute) and isinstance(n.value,ast.Name) and n.value.id=='state' and isinstance(n.ctx,ast.Load) and n.attr not in keys:
                    print(f.stem,cls.name,mn,'reads state.'+n.attr,'not in',sorted(keys))
print('bag probe done')
