import ast, pathlib, collections
root=pathlib.Path('/repo'); pkg=root/'inferno'
mods={}
for f in pkg.rglob('*.py'):
    rel=f.relative_to(root).with_suffix('')
    parts=list(rel.parts)
    if parts[-1]=='__init__': parts=parts[:-1]
    mods['.'.join(parts)]=(f,ast.parse(f.read_text()))
def is_pkg(m): return (root/pathlib.Path(*m.split('.'))/'__init__.py').exists()
# top-level defs & imports
defs={}; imps={}
for m,(f,t) in mods.items():
    d={}; i={}
    for n in t.body:
        if isinstance(n,(ast.FunctionDef,ast.ClassDef)): d[n.name]=n
        elif isinstance(n,ast.ImportFrom):
            base=m if is_pkg(m) else m.rsplit('.',1)[0]
            if n.level:
                b=base.split('.')
                b=b[:len(b)-(n.level-1)]
                tgt='.'.join(b+([n.module] if n.module else []))
            else: tgt=n.module
            for a in n.names: i[a.asname or a.name]=(tgt,a.name)
        elif isinstance(n,ast.Import):
            for a in n.names: i[a.asname or a.name]=(a.name,None)
    defs[m]=d; imps[m]=i
def resolve(m,name,depth=0):
    if depth>8: return None
    if m not in defs: return None
    if name in defs[m]: return (m,defs[m][name])
    if name in imps[m]:
        tgt,orig=imps[m][name]
        if orig is None: return ('module',tgt)
        if tgt+'.'+orig in mods: return ('module',tgt+'.'+orig)
        return resolve(tgt,orig,depth+1)
    return None
def check(call,fn,skip_self,where):
    a=fn.args
    pos=[x.arg for x in a.posonlyargs+a.args]
    if skip_self: pos=pos[1:]
    nd=len(a.defaults)
    req_pos=pos[:len(pos)-nd] if nd<=len(pos) else []
    kwonly=[x.arg for x in a.kwonlyargs]
    kwreq=[x.arg for x,d in zip(a.kwonlyargs,a.kw_defaults) if d is None]
    if any(isinstance(x,ast.Starred) for x in call.args) or any(k.arg is None for k in call.keywords): 
        star=True
    else: star=False
    npos=len([x for x in call.args if not isinstance(x,ast.Starred)])
    msgs=[]
    if npos>len(pos) and not a.vararg: msgs.append(f'too many positional ({npos}>{len(pos)})')
    kws=[k.arg for k in call.keywords if k.arg]
    for k in kws:
        if k not in pos and k not in kwonly and not a.kwarg: msgs.append(f'unknown kw {k}')
        if k in pos[:npos]: msgs.append(f'dup {k}')
    if not star:
        for r in req_pos[npos:]:
            if r not in kws: msgs.append(f'missing {r}')
        for r in kwreq:
            if r not in kws: msgs.append(f'missing kwonly {r}')
    for mm in msgs: print(where, fn.name, mm)
    return 1
n_res=0;n_all=0
for m,(f,t) in mods.items():
    for cls_or_none,node in [(None,t)]:
        for call in [n for n in ast.walk(t) if isinstance(n,ast.Call)]:
            n_all+=1
            fnode=call.func
            where=f'{f.relative_to(root)}:{call.lineno}'
            if isinstance(fnode,ast.Name):
                r=resolve(m,fnode.id)
                if r and r[0]!='module':
                    d=r[1]
                    if isinstance(d,ast.FunctionDef): n_res+=check(call,d,False,where)
                    elif isinstance(d,ast.ClassDef):
                        init=[x for x in d.body if isinstance(x,ast.FunctionDef) and x.name=='__init__']
                        if init: n_res+=check(call,init[0],True,where)
            elif isinstance(fnode,ast.Attribute) and isinstance(fnode.value,ast.Name):
                r=resolve(m,fnode.value.id)
                if r and r[0]=='module':
                    r2=resolve(r[1],fnode.attr)
                    if r2 and r2[0]!='module' and isinstance(r2[1],ast.FunctionDef): n_res+=check(call,r2[1],False,where)
                elif r and isinstance(r[1],ast.ClassDef):
                    meth=[x for x in r[1].body if isinstance(x,ast.FunctionDef) and x.name==fnode.attr]
                    if meth:
                        decs=[ast.unparse(dd) for dd in meth[0].decorator_list]
                        sk = 'staticmethod' not in decs and 'classmethod' in decs
                        # Class.method(self,...) explicit self unless classmethod
                        n_res+=check(call,meth[0],sk,where)
print('calls',n_all,'resolved',n_res)
