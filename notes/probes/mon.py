import ast, pathlib
root=pathlib.Path('/repo/inferno/learn/trainers')
for f in sorted(root.glob('*.py')):
    t=ast.parse(f.read_text())
    for cls in [n for n in t.body if isinstance(n,ast.ClassDef)]:
        for call in [n for n in ast.walk(cls) if isinstance(n,ast.Call) and isinstance(n.func,ast.Attribute) and n.func.attr=='add_monitor']:
            name=ast.unparse(call.args[1]); attr=ast.unparse(call.args[2])
            pc=call.args[3]
            red=[k.value for k in pc.keywords if k.arg=='reducer'][0]
            rcls=ast.unparse(red.func)
            rargs=[ast.unparse(a) for a in red.args]+[f'{k.arg}={ast.unparse(k.value)}' for k in red.keywords]
            tags={k.arg:ast.unparse(k.value) for k in call.keywords}
            uniq=ast.unparse(call.args[4])
            print(f'{f.stem[:18]:18} {cls.name[:22]:22} {name:18} {attr[:40]:40} {rcls:24} uniq={uniq}')
            print('      rargs:',[a for a in rargs if not a.startswith(('target=','inclusive='))])
            print('      tags :',tags)
