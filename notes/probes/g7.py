import ast, pathlib, collections
root=pathlib.Path('/repo/inferno')
def selfattrs(node, store):
    out=set()
    for n in ast.walk(node):
        if isinstance(n,ast.Attribute) and isinstance(n.value,ast.Name) and n.value.id=='self':
            if store and isinstance(n.ctx,ast.Store): out.add(n.attr)
            if not store and isinstance(n.ctx,ast.Load): out.add(n.attr)
    return out
for f in sorted(root.rglob('*.py')):
    t=ast.parse(f.read_text())
    for cls in [n for n in ast.walk(t) if isinstance(n,ast.ClassDef)]:
        getters={}; setters={}
        for m in cls.body:
            if isinstance(m,ast.FunctionDef):
                decs=[ast.unparse(d) for d in m.decorator_list]
                if 'property' in decs: getters[m.name]=m
                for d in decs:
                    if d.endswith('.setter'): setters[d[:-7]]=m
        # field returned by getter: `return self.X` directly
        ret={}
        for p,g in getters.items():
            r=[s for s in ast.walk(g) if isinstance(s,ast.Return) and s.value is not None]
            if len(r)==1 and isinstance(r[0].value,ast.Attribute) and isinstance(r[0].value.value,ast.Name) and r[0].value.value.id=='self':
                ret[p]=r[0].value.attr
        for p,s in setters.items():
            st=selfattrs(s,True)
            if not st: continue
            own=ret.get(p)
            others={q:fld for q,fld in ret.items() if q!=p}
            if own and own not in st and not any(isinstance(n,ast.Attribute) and n.attr in('fset',) for n in ast.walk(s)):
                # allow self.X.data = / self.X.value = (stores through own field)
                thru=any(isinstance(n,ast.Attribute) and isinstance(n.ctx,ast.Store) and isinstance(n.value,ast.Attribute) and n.value.attr==own for n in ast.walk(s))
                if not thru: print('OWN-NOT-STORED',f.name,cls.name,p,'getter returns',own,'setter stores',st)
            for q,fld in others.items():
                if fld in st and fld!=own: print('STORES-OTHER',f.name,cls.name,p,'stores',fld,'which is getter of',q)
