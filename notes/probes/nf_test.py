import sys; sys.path.insert(0,'/tmp/probe')
from nf import *
I=open('/repo/inferno/functional/interpolation.py').read()
E=open('/repo/inferno/functional/extrapolation.py').read()
K=open('/repo/inferno/functional/stdkernels.py').read()
pairs=[('extrap_previous','interp_previous',{}),('extrap_next','interp_next',{}),('extrap_nearest','interp_nearest',{}),
 ('extrap_linear_forward','interp_linear',{}),('extrap_linear_backward','interp_linear',{}),('extrap_expdecay','interp_expdecay',{}),('extrap_expratedecay','interp_expratedecay',{})]
for ex,ip,_ in pairs:
    try:
        base={'adjust':const(0)}
        # adjust=None -> falsy: model by env var; IfExp test on 'adjust' -> handle by giving ite with identical? simple: replace
        src=E.replace('adjust(prev_data) if adjust else prev_data','prev_data').replace('adjust(next_data) if adjust else next_data','next_data')
        pe,ne=func_terms(src,ex,{},positive=['step_time'])
        res=func_terms(I,ip,{'prev_data':pe,'next_data':ne},positive=['step_time'])
        ok = freeze(res)==freeze(atom('sample'))
        print(ex,ip,'->','IDENTITY' if ok else freeze(res))
    except Exception as e: print(ex,ip,'ERR',type(e).__name__,e)
# linear endpoints
print('lin@0', freeze(func_terms(I,'interp_linear',{'sample_at':const(0)}))==freeze(atom('prev_data')))
print('lin@dt', freeze(func_terms(I,'interp_linear',{'sample_at':atom('step_time')}))==freeze(atom('next_data')))
# kernel vs dedicated rule
post=func_terms(K,'exp_stdp_post_kernel',{})
ded=N({}).n(ast.parse("torch.exp(diff.abs() / -time_constant) * (learning_rate * (diff >= 0).to(dtype=diff.dtype))",mode='eval').body)
print('kernel==dedicated', freeze(post)==freeze(ded))
mut=N({}).n(ast.parse("torch.exp(diff.abs() / time_constant) * (learning_rate * (diff >= 0).to(dtype=diff.dtype))",mode='eval').body)
print('mutant differs', freeze(post)!=freeze(mut))
