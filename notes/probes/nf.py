"""Throwaway prototype of the polynomial/rational normal form over AST expressions."""
import ast
from fractions import Fraction
from collections import Counter

# A normal form is a dict: monomial(frozenset of (atom,exp)) -> Fraction coeff
def const(c): return {frozenset(): Fraction(c)} if c!=0 else {}
def atom(a): return {frozenset([(a,1)]): Fraction(1)}
def add(p,q):
    r=dict(p)
    for m,c in q.items():
        r[m]=r.get(m,0)+c
        if r[m]==0: del r[m]
    return r
def mulmono(m1,m2):
    d=Counter(dict(m1))
    for a,e in m2: d[a]+=e
    # exp law: combine exp(...) atoms
    exps=[(a,e) for a,e in d.items() if isinstance(a,tuple) and a[0]=='exp' and e!=0]
    if len(exps)>1 or any(e!=1 for _,e in exps):
        tot={}
        for a,e in exps:
            tot=add(tot, scale(a[1],e)); del d[a]
        key=freeze(tot)
        if key!=freeze({}):
            d[('exp',key)]+=1
    return frozenset((a,e) for a,e in d.items() if e!=0)
def scale(pf,k):
    p=thaw(pf); return {m:c*k for m,c in p.items()}
def freeze(p): return tuple(sorted(((tuple(sorted(m,key=repr)),c) for m,c in p.items()),key=repr))
def thaw(f): return {frozenset(m):c for m,c in f}
def mul(p,q):
    r={}
    for m1,c1 in p.items():
        for m2,c2 in q.items():
            m=mulmono(m1,m2); r[m]=r.get(m,0)+c1*c2
            if r[m]==0: del r[m]
    return r
def inv(p):
    if len(p)==1:
        (m,c),=p.items()
        return {mulmono(frozenset((a,-e) for a,e in m),frozenset()): 1/c}
    # denominator is a sum: make it an atom with sign normalisation
    f=freeze(p); lead=f[0][1]
    if lead<0: return scale(freeze(inv(scale(f,-1))),-1)
    return {frozenset([(('sum',f),-1)]): Fraction(1)}
def powi(p,n):
    if n<0: return powi(inv(p),-n)
    r=const(1)
    for _ in range(n): r=mul(r,p)
    return r
ALIAS={'exp':'exp','abs':'abs','where':'ite','log':'log','ceil':'ceil','floor':'floor','round':'round','heaviside':'heaviside'}
def fn(name,*args): return atom((name,)+tuple(freeze(a) if isinstance(a,dict) else a for a in args))
class N:
    def __init__(self,env,positive=()): self.env=env; self.pos=set(positive)
    def n(self,e):
        if isinstance(e,ast.Constant): return const(Fraction(str(e.value))) if isinstance(e.value,(int,float)) and not isinstance(e.value,bool) else atom(('const',repr(e.value)))
        if isinstance(e,ast.Name): return self.env[e.id] if e.id in self.env else atom(e.id)
        if isinstance(e,ast.UnaryOp) and isinstance(e.op,ast.USub): return scale(freeze(self.n(e.operand)),-1)
        if isinstance(e,ast.UnaryOp) and isinstance(e.op,ast.Invert): return fn('not',self.n(e.operand))
        if isinstance(e,ast.BinOp):
            a,b=self.n(e.left),self.n(e.right)
            if isinstance(e.op,ast.Add): return add(a,b)
            if isinstance(e.op,ast.Sub): return add(a,scale(freeze(b),-1))
            if isinstance(e.op,ast.Mult): return mul(a,b)
            if isinstance(e.op,ast.Div): return mul(a,inv(b))
            if isinstance(e.op,ast.Pow) and isinstance(e.right,ast.Constant) and isinstance(e.right.value,int): return powi(a,e.right.value)
            if isinstance(e.op,ast.Pow): return fn('pow',a,b)
            if isinstance(e.op,ast.Mod): return fn('mod',a,b)
        if isinstance(e,ast.Compare) and len(e.ops)==1:
            a,b=self.n(e.left),self.n(e.comparators[0]); op=type(e.ops[0]).__name__
            d=add(a,scale(freeze(b),-1))   # a - b  (op) 0
            if op in('Lt','LtE'): d=scale(freeze(d),-1); op={'Lt':'Gt','LtE':'GtE'}[op]
            # divide by positive atoms common to all monomials: skipped; multiply out negative powers of positive symbols
            for s in self.pos:
                while any(dict(m).get(s,0)<0 for m in d): d=mul(d,atom(s))
            # normalise scale by leading coeff magnitude
            f=freeze(d)
            if f:
                k=abs(f[0][1]); d=scale(f,1/k)
            return fn('cmp'+op,d)
        if isinstance(e,ast.Tuple): return [self.n(x) for x in e.elts]
        if isinstance(e,ast.Call):
            f=e.func
            name=f.attr if isinstance(f,ast.Attribute) else f.id
            args=[self.n(a) for a in e.args]
            recv=None
            if isinstance(f,ast.Attribute) and not (isinstance(f.value,ast.Name) and f.value.id in('torch','math','F','np')):
                recv=self.n(f.value); args=[recv]+args
            if name=='exp':
                return atom(('exp',freeze(args[0]))) if freeze(args[0])!=() else const(1)
            if name=='where':
                if recv is not None: c,a,b=args[1],args[0],args[2]   # x.where(c, other)
                else: c,a,b=args
                return self.ite(c,a,b)
            if name in('to','float','bool'): return args[0]  # cast-insensitive
            if name=='abs' : return fn('abs',args[0])
            return fn(name,*args)
        if isinstance(e,ast.IfExp): return self.ite(self.n(e.test),self.n(e.body),self.n(e.orelse))
        if isinstance(e,ast.Attribute): return atom(ast.unparse(e))
        raise NotImplementedError(ast.dump(e)[:80])
    def ite(self,c,a,b):
        fc=freeze(c)
        # negated condition: swap
        if len(c)==1:
            (m,co),=c.items()
            if co==1 and len(m)==1:
                (at,e),=m
                if isinstance(at,tuple) and at[0]=='not': return self.ite(thaw(at[1]),b,a)
        if freeze(a)==freeze(b): return a
        return fn('ite',c,a,b)
def func_terms(src,fname,argmap=None,positive=()):
    t=ast.parse(src); f=[n for n in ast.walk(t) if isinstance(n,ast.FunctionDef) and n.name==fname][0]
    env=dict(argmap or {})
    nz=N(env,positive)
    for st in f.body:
        if isinstance(st,ast.Expr): continue
        if isinstance(st,ast.Assign) and len(st.targets)==1 and isinstance(st.targets[0],ast.Name):
            env[st.targets[0].id]=nz.n(st.value)
        elif isinstance(st,ast.Return):
            return nz.n(st.value)
        else: raise NotImplementedError(type(st).__name__)
